#!/bin/bash
# seedtool.sh confirm <seed>          : in a scratch worktree: patch applies, builds, existing suite (w/o ./server/ unless meta.run_server) passes,
#                                       demo fails with the patch and passes without it. Writes seeded/<seed>/confirm.log
# seedtool.sh check <seed> <ID> [tier]: run one /verif check against a scratch worktree with the patch applied (exit 1 = detected)
# Development aid (not registered in MANIFEST). Scratch worktrees live under /tmp and are removed afterwards.
set -u
export GOFLAGS=-mod=mod GOPROXY=off GOSUMDB=off GOTOOLCHAIN=local
CMD=$1; SEED=$2; DIR=/verif/seeded/$SEED
[ -f "$DIR/patch.diff" ] || { echo "no $DIR/patch.diff"; exit 3; }
TOP=$(mktemp -d /tmp/zseed-XXXXXX); WT=$TOP/zenodb; export TMPDIR=$TOP/tmp; mkdir -p $TMPDIR
cleanup() { git -C /repo worktree remove --force "$WT" 2>/dev/null; rm -rf "$TOP" /verif/bin/alt-$(echo "$WT" | md5sum | cut -c1-8); }
trap cleanup EXIT
git -C /repo worktree add --detach -q "$WT" HEAD || exit 3
meta() { python3 -c "import json,sys; d=json.load(open('$DIR/meta.json')); print(d.get('$1',''))"; }
case $CMD in
confirm)
  LOG=$DIR/confirm.log; : > $LOG
  cd "$WT"
  git apply "$DIR/patch.diff" || { echo "PATCH DOES NOT APPLY" | tee -a $LOG; exit 1; }
  echo "== build" >> $LOG
  (go build ./... && go test -vet=off -count=1 -run '^$' ./... >/dev/null) >> $LOG 2>&1 || { echo "BUILD FAILS" | tee -a $LOG; exit 1; }
  echo "== suite (with patch)" >> $LOG
  PKGS=". ./bytetree/ ./common/ ./compression/ ./core/ ./encoding/ ./expr/ ./planner/ ./sql/ ./rpc/... ./web/ ./metrics/"
  [ "$(meta run_server)" = "True" ] && PKGS="$PKGS ./server/"
  ok=1
  for attempt in 1 2 3; do
    go test -vet=off -count=1 -timeout 20m -skip 'TestSequenceOnly$' $PKGS > $TOP/suite.log 2>&1 && { ok=1; break; } || ok=0
    # encoding.TestSequenceOnly and the server tests are flaky on the unmodified tree: retry
  done
  grep -a -E "^(ok|FAIL|---)" $TOP/suite.log >> $LOG
  [ $ok = 1 ] || { echo "SUITE FAILS WITH PATCH" | tee -a $LOG; exit 1; }
  DP=$(meta demo_path); DF=$(meta demo_file); DC=$(meta demo_cmd)
  mkdir -p "$(dirname "$DP")"; cp "$DIR/$DF" "$DP"
  echo "== demo with patch: $DC" >> $LOG
  if bash -c "$DC" > $TOP/demo1.log 2>&1; then echo "DEMO PASSES WITH PATCH (expected failure)" | tee -a $LOG; tail -5 $TOP/demo1.log >> $LOG; exit 1; fi
  grep -a -E "FAIL|expected|got|panic" $TOP/demo1.log | head -8 >> $LOG
  git apply -R "$DIR/patch.diff"
  echo "== demo without patch" >> $LOG
  if ! bash -c "$DC" > $TOP/demo2.log 2>&1; then echo "DEMO FAILS WITHOUT PATCH" | tee -a $LOG; tail -15 $TOP/demo2.log >> $LOG; exit 1; fi
  tail -2 $TOP/demo2.log >> $LOG
  echo "CONFIRMED $SEED" | tee -a $LOG
  ;;
check)
  ID=$3; TIER=${4:-quick}
  git -C "$WT" apply "$DIR/patch.diff" || { echo "PATCH DOES NOT APPLY"; exit 3; }
  cd /verif
  VERIF_REPO="$WT" VERIF_OUT="$TOP/out" ./run.sh "$ID" "$TIER"
  ;;
esac
