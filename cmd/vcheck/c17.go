package main

// C17 — concurrent queries on a table each get the result they would get alone.
// Differential coalesced vs solo on quiescent data, with failing / early-terminating companions.

import (
	"context"
	"errors"
	"fmt"
	"strings"
	"sync"
	"time"

	"github.com/getlantern/zenodb"

	"verif/internal/dbh"
	"verif/internal/fw"
	"verif/internal/gen"
	"verif/internal/ref"
)

func init() {
	fw.Register(&fw.Property{
		ID:    "C17",
		Level: "exploration",
		Rule: "one case = a DB with 3 tables on one stream + generated points + storage split, coalesce interval 60ms; N sets of 2-8 generated queries (different tables, field subsets, LIMITs, time ranges incl. UNTIL in the past, derived fields, memstore-inclusive and disk-only mixed) " +
			"released together from a barrier (=> shared scans) and each compared bit-for-bit with the same query run alone; every other set contains failing companions (consumer callback returning an error after k rows, already expired deadline) " +
			"whose failure must not change the other queries' rows or errors; the coalesce hook counts the group sizes actually formed; non-trivial = the set was served by a coalesced group of >=2; distinct by dataset+set hash",
		Assumptions: []string{"data is quiescent while the sets run", "unordered LIMIT queries are only checked for row count and membership in the full result"},
		Cases: func(tier string) int {
			if tier == "quick" {
				return 10
			}
			return 150
		},
		Batch:            5,
		Workers:          6,
		RaceEvery:        1,
		RaceSig:          storageRaceSig,
		PanicIsViolation: true,
		Run:              runC17,
		Finish: func(a *fw.Agg) {
			big := int64(0)
			for k, v := range a.Obs {
				if strings.HasPrefix(k, "coalesce_group_size=") && k != "coalesce_group_size=1" {
					big += v
				}
			}
			if big == 0 {
				a.MarkInconclusive("no coalesced group of size > 1 was ever formed")
			}
		},
	})
}

type c17Query struct {
	sql      string
	table    string
	limit    bool
	mem      bool // memstore-inclusive (both options are mixed inside one set)
	failAt   int  // >=0: consumer callback returns an error at this row
	expired  bool // already expired deadline
	solo     *dbh.Result
	soloFull *dbh.Result // for unordered LIMIT: the unlimited result
	fullSQL  string
}

var errC17Consumer = errors.New("verif: consumer gives up")

func runC17(c *fw.Ctx) {
	r := c.Rand
	// two sibling tables so that one coalesce window sees iterations for several tables
	mkSibling := func(name string) ref.TableSpec {
		t := gen.Table(r, name, "inbound")
		t.Where = nil
		return t
	}
	d := buildDataset(c, dsOpts{minPoints: 60, maxPoints: 250, spanPeriods: [2]int{4, 20}, noWhere: true, extraTables: []ref.TableSpec{mkSibling("u"), mkSibling("v")},
		opts: dbh.Opts{VirtualTime: true, Coalesce: 60 * time.Millisecond, IterConc: 3}})
	if d == nil {
		return
	}
	defer d.db.Close()
	nSets := c.Pick(12, 40)
	zenodb.VerifResetCounts()
	var samples [][]string
	nontrivial := 0
	for si := 0; si < nSets && !c.Violated(); si++ {
		nq := 2 + r.Intn(7)
		var qs []*c17Query
		withFailures := si%2 == 1
		for i := 0; i < nq; i++ {
			tbl := "t"
			spec := d.spec
			switch r.Intn(5) {
			case 0:
				tbl, spec = "u", &d.specs[1]
			case 1:
				tbl, spec = "v", &d.specs[2]
			}
			sub := *d
			sub.spec = spec
			sub.cells, _ = spec.Aggregate(d.points)
			g := genQuery(r, &sub, qOpts{pastUntilBias: true, noSubquery: true})
			q := &c17Query{sql: strings.Replace(g.SQL, " FROM t", " FROM "+tbl, 1), table: tbl, failAt: -1, mem: r.Intn(3) != 0}
			if g.HasLimit && !g.HasOrder {
				q.limit = true
				q.fullSQL = q.sql[:strings.LastIndex(q.sql, " LIMIT ")]
			}
			if withFailures && i > 0 && r.Intn(3) == 0 {
				if r.Intn(2) == 0 {
					q.failAt = r.Intn(4)
					// a callback error only reaches the shared scan for plans without a group stage
					if r.Intn(2) == 0 {
						q.sql = "SELECT * FROM " + tbl
						q.limit = false
					}
				} else {
					q.expired = true
				}
			}
			qs = append(qs, q)
		}
		if r.Intn(2) == 0 {
			// an ungrouped LIMIT query terminates early inside the shared scan itself
			tbl := []string{"t", "u", "v"}[r.Intn(3)]
			k := 1 + r.Intn(5)
			q := &c17Query{sql: fmt.Sprintf("SELECT * FROM %s LIMIT %d", tbl, k), table: tbl, failAt: -1, limit: true, fullSQL: "SELECT * FROM " + tbl, mem: r.Intn(3) != 0}
			pos := r.Intn(len(qs) + 1)
			qs = append(qs[:pos], append([]*c17Query{q}, qs[pos:]...)...)
			c.Obs("ungrouped_limit_companions", 1)
		}
		// solo runs (each alone in its coalesce window)
		for _, q := range qs {
			q.solo = d.db.Query(q.sql, q.mem)
			if q.limit {
				q.soloFull = d.db.Query(q.fullSQL, q.mem)
			}
		}
		before := zenodb.VerifCounts()
		// concurrent runs from a barrier
		results := make([]*dbh.Result, len(qs))
		var wg sync.WaitGroup
		start := make(chan struct{})
		for i, q := range qs {
			wg.Add(1)
			go func(i int, q *c17Query) {
				defer wg.Done()
				<-start
				ctx := context.Background()
				if q.expired {
					var cancel context.CancelFunc
					ctx, cancel = context.WithDeadline(ctx, time.Now().Add(-time.Second))
					defer cancel()
				}
				results[i] = dbh.RunQuery(ctx, d.db.DB, q.sql, q.mem, func(n int, row *dbh.Row) (bool, error) {
					if q.failAt >= 0 && n >= q.failAt {
						return false, errC17Consumer
					}
					return true, nil
				})
			}(i, q)
		}
		close(start)
		wg.Wait()
		after := zenodb.VerifCounts()
		maxGroup := 0
		for k, v := range after {
			if strings.HasPrefix(k, "coalesce=") && v > before[k] {
				var n int
				fmt.Sscanf(k, "coalesce=%d", &n)
				c.Obs(fmt.Sprintf("coalesce_group_size=%d", n), v-before[k])
				if n > maxGroup {
					maxGroup = n
				}
			}
		}
		if maxGroup >= 2 {
			nontrivial++
		}
		var setSQL []string
		for _, q := range qs {
			tag := ""
			if q.failAt >= 0 {
				tag = fmt.Sprintf(" [consumer fails at row %d]", q.failAt)
			}
			if q.expired {
				tag = " [expired deadline]"
			}
			if !q.mem {
				tag += " [disk only]"
				c.Obs("disk_only_queries_in_sets", 1)
			}
			setSQL = append(setSQL, q.sql+tag)
			c.HashAdd(q.sql, tag)
		}
		if len(samples) < 2 {
			samples = append(samples, setSQL)
		}
		c.Obs("query_sets", 1)
		c.Obs("queries", int64(len(qs)))
		if withFailures {
			c.Obs("sets_with_failing_companions", 1)
		}
		for i, q := range qs {
			if q.failAt >= 0 || q.expired {
				continue // the failing companions themselves are not judged
			}
			got := results[i]
			data := map[string]interface{}{"dataset": d.describe(), "set": setSQL, "query": q.sql, "largest_group": maxGroup}
			if got.Failed() != q.solo.Failed() || (got.Failed() && got.ErrString() != q.solo.ErrString()) {
				sig := "c17-error-differs"
				if withFailures {
					sig = "c17-companion-failure-leaks"
				}
				c.ViolateData(sig, data, "%q run together with %d other queries (largest coalesced group %d) ended with %q after %d rows, alone it ends with %q and %d rows", q.sql, len(qs)-1, maxGroup, got.ErrString(), len(got.Rows), q.solo.ErrString(), len(q.solo.Rows))
				break
			}
			if got.Failed() {
				continue
			}
			if q.limit {
				// any n rows of the full result
				if len(got.Rows) != len(q.solo.Rows) {
					c.ViolateData("c17-limit-count", data, "%q returned %d rows when coalesced, %d alone", q.sql, len(got.Rows), len(q.solo.Rows))
					break
				}
				full, _ := q.soloFull.Index()
				for ri := range got.Rows {
					fr, ok := full[got.Rows[ri].ID()]
					if !ok || fmt.Sprint(fr.Vals) != fmt.Sprint(got.Rows[ri].Vals) {
						c.ViolateData("c17-limit-foreign-row", data, "%q when coalesced returned row %s %v that the full result does not contain", q.sql, got.Rows[ri].ID(), got.Rows[ri].Vals)
						break
					}
				}
				continue
			}
			if diff := dbh.Diff(q.solo, got, 0); diff != "" {
				c.ViolateData("c17-rows-differ", data, "%q returns different rows when run together with %d other queries (largest coalesced group %d) than alone: %s", q.sql, len(qs)-1, maxGroup, diff)
				break
			}
		}
	}
	c.Nontrivial(nontrivial > 0)
	c.Sample(map[string]interface{}{"dataset": d.describe(), "tables": describeTables(d.specs), "sets": samples})
}
