package main

import (
	"context"
	"fmt"
	"math/rand"
	"sort"
	"strings"
	"time"

	"verif/internal/dbh"
	"verif/internal/fw"
	"verif/internal/gen"
	"verif/internal/ref"
)

var quiesceTimeout = 90 * time.Second

// defsFor converts reference table specs into harness table definitions.
func defsFor(specs []ref.TableSpec, r *rand.Rand, retention func(t *ref.TableSpec) time.Duration) []dbh.TableDef {
	var out []dbh.TableDef
	for i := range specs {
		t := &specs[i]
		d := dbh.TableDef{Name: t.Name, SQL: t.SQL(), Retention: retention(t), Stream: t.Stream, View: t.ViewOf != ""}
		if r != nil {
			switch r.Intn(4) {
			case 0:
				d.MaxFlush = 0 // disabled: only forced flushes
			case 1:
				d.MaxFlush = time.Millisecond
			case 2:
				d.MaxFlush = time.Duration(2+r.Intn(48)) * time.Millisecond
			default:
				d.MaxFlush = time.Duration(2+r.Intn(20)) * time.Millisecond
				d.MinFlush = time.Duration(1+r.Intn(5)) * time.Millisecond
			}
		}
		out = append(out, d)
	}
	return out
}

// viewOf derives a view spec from a base table.
func viewOf(r *rand.Rand, base *ref.TableSpec, name string) ref.TableSpec {
	v := ref.TableSpec{Name: name, Stream: base.Stream, Res: base.Res, ViewOf: base.Name, GroupBy: base.GroupBy, Where: base.Where}
	if r.Intn(2) == 0 {
		v.ViewWhere = gen.Pred(r, 1)
		if base.Where != nil {
			v.Where = &ref.Pred{Op: "and", L: v.ViewWhere, R: base.Where}
		} else {
			v.Where = v.ViewWhere
		}
	}
	if r.Intn(2) == 0 {
		// own group by: subset of always-present dims
		perm := r.Perm(3)
		k := 1 + r.Intn(3)
		var gb []string
		for _, i := range perm[:k] {
			gb = append(gb, gen.GroupDims[i])
		}
		sort.Strings(gb)
		v.GroupBy = gb
		v.ViewGroup = true
	}
	if r.Intn(2) == 0 && len(base.Fields) > 1 {
		k := 1 + r.Intn(len(base.Fields))
		perm := r.Perm(len(base.Fields))[:k]
		for _, i := range perm {
			v.ViewSelect = append(v.ViewSelect, base.Fields[i].Name)
			v.Fields = append(v.Fields, base.Fields[i])
		}
	} else {
		v.Fields = append([]ref.FieldDef(nil), base.Fields...)
	}
	return v
}

// compareCells checks a query result against reference cells. fields are the reference
// field definitions in the order they appear after _points in the result (matched by name).
// strict: every reference cell must be present and every row must have a reference cell.
func compareCells(c *fw.Ctx, what string, res *dbh.Result, cells map[string]*ref.Cell, fields []ref.FieldDef, tol float64, sigPrefix string, data interface{}) (compared int) {
	if res.Failed() {
		c.ViolateData(sigPrefix+"-query-error", data, "%s: query %q failed: %s", what, res.SQL, res.ErrString())
		return 0
	}
	pi := res.Field("_points")
	idx := make([]int, len(fields))
	for i := range fields {
		idx[i] = res.Field(fields[i].Name)
		if idx[i] < 0 {
			c.ViolateData(sigPrefix+"-missing-field", data, "%s: result of %q lacks field %s (has %v)", what, res.SQL, fields[i].Name, res.Fields)
			return 0
		}
	}
	seen := map[string]bool{}
	for i := range res.Rows {
		row := &res.Rows[i]
		id := row.ID()
		if seen[id] {
			c.ViolateData(sigPrefix+"-duplicate-row", data, "%s: %q returned two rows for (ts=%v key=%s)", what, res.SQL, time.Unix(0, row.TS).UTC(), row.Key)
			return compared
		}
		seen[id] = true
		cell := cells[id]
		if cell == nil {
			c.ViolateData(sigPrefix+"-extra-row", data, "%s: %q returned row (ts=%v key=%s vals=%v) that no accepted point accounts for", what, res.SQL, time.Unix(0, row.TS).UTC(), row.Key, row.Vals)
			return compared
		}
		if pi >= 0 && row.Vals[pi] != float64(cell.Points) {
			c.ViolateData(sigPrefix+"-points", data, "%s: %q row (ts=%v key=%s): _points=%v, reference says %d accepted points (ids %v)", what, res.SQL, time.Unix(0, row.TS).UTC(), row.Key, row.Vals[pi], cell.Points, cell.IDs)
			return compared
		}
		for fi := range fields {
			want, _, dontCare := cell.Accs[fi].Value(&fields[fi])
			if dontCare {
				c.Obs("fields_dont_care", 1)
				continue
			}
			got := row.Vals[idx[fi]]
			compared++
			if !ref.FloatEq(got, want, tol) {
				c.ViolateData(sigPrefix+"-value", data, "%s: %q row (ts=%v key=%s): field %s (%s) = %v, reference says %v over point ids %v", what, res.SQL, time.Unix(0, row.TS).UTC(), row.Key, fields[fi].Name, fields[fi].SQL(), got, want, cell.IDs)
				return compared
			}
		}
	}
	for id, cell := range cells {
		if !seen[id] {
			if pi < 0 {
				// without _points a row whose selected fields are all unset may legitimately be absent
				anySet := false
				for fi := range fields {
					if _, set, dc := cell.Accs[fi].Value(&fields[fi]); set || dc {
						anySet = true
					}
				}
				if !anySet {
					continue
				}
			}
			c.ViolateData(sigPrefix+"-missing-row", data, "%s: %q lacks the row (ts=%v key=%s) that %d accepted points (ids %v) fall into", what, res.SQL, time.Unix(0, cell.TS).UTC(), cell.Key, cell.Points, cell.IDs)
			return compared
		}
	}
	return compared
}

func describeTables(specs []ref.TableSpec) []string {
	var out []string
	for i := range specs {
		out = append(out, fmt.Sprintf("%s: %s", specs[i].Name, specs[i].SQL()))
	}
	return out
}

func insertPoint(db *dbh.DB, stream string, p *ref.Point) error {
	return db.Insert(stream, p.TS, p.Dims, p.Vals)
}

// maxTS returns the newest timestamp among points (the virtual clock after ingestion,
// provided the newest point is accepted by some table).
func maxTS(points []ref.Point) time.Time {
	var m time.Time
	for i := range points {
		if points[i].TS.After(m) {
			m = points[i].TS
		}
	}
	return m
}

// ------------------------------------------------------------------------------------------
// single-table datasets with a storage split, shared by the query monitors

type dsOpts struct {
	minPoints, maxPoints int
	spanPeriods          [2]int // span in table periods: [min,max]
	forceGroupBy         bool   // table groups by a subset (never *) so keys are small
	noWhere              bool
	retentionSlack       func(r *rand.Rand, res time.Duration) time.Duration // added to span
	extraTables          []ref.TableSpec
	opts                 dbh.Opts
	fixedRes             time.Duration
	fields               []ref.FieldDef
	ascending            bool                                                      // points arrive in timestamp order (nothing is rejected as too old)
	retentionFn          func(r *rand.Rand, res, span time.Duration) time.Duration // overrides span+slack
}

type dataset struct {
	db        *dbh.DB
	spec      *ref.TableSpec
	specs     []ref.TableSpec
	points    []ref.Point
	cells     map[string]*ref.Cell
	now       time.Time
	until     time.Time
	asOf      time.Time
	retention time.Duration
	split     string
	flushes   int
	ood       int
}

func (d *dataset) describe() map[string]interface{} {
	return map[string]interface{}{"table": d.spec.SQL(), "points": len(d.points), "split": d.split, "retention": d.retention.String(), "clock": d.now.Format(time.RFC3339Nano)}
}

// buildDataset opens a DB with one main table "t", inserts generated points with a PRNG-chosen
// memory/disk split, waits for quiescence and computes the reference cells.
func buildDataset(c *fw.Ctx, o dsOpts) *dataset {
	r := c.Rand
	t := gen.Table(r, "t", "inbound")
	if o.fixedRes > 0 {
		t.Res = o.fixedRes
	}
	if o.forceGroupBy && len(t.GroupBy) == 0 {
		t.GroupBy = []string{"s", "n"}
	}
	if o.noWhere {
		t.Where = nil
	}
	if o.fields != nil {
		t.Fields = o.fields
	}
	specs := append([]ref.TableSpec{t}, o.extraTables...)
	for i := 1; i < len(specs); i++ {
		specs[i].Res = t.Res // sibling tables share the main table's resolution (retention is sized for it)
	}
	spanP := o.spanPeriods[0] + r.Intn(o.spanPeriods[1]-o.spanPeriods[0]+1)
	span := time.Duration(spanP) * t.Res
	slack := t.Res * time.Duration(2+r.Intn(4))
	if o.retentionSlack != nil {
		slack = o.retentionSlack(r, t.Res)
	}
	retention := span + slack
	if o.retentionFn != nil {
		retention = o.retentionFn(r, t.Res, span)
	}
	defs := defsFor(specs, nil, func(*ref.TableSpec) time.Duration { return retention })
	for i := range defs {
		// after its first flush a row store flushes again on a timer of 10x the flush duration unless a
		// minimum latency is set (row_store.go flush()): without this the memory/disk split chosen below
		// would silently decay into "all on disk" a few milliseconds after the dataset is built
		defs[i].MinFlush = time.Hour
	}
	d := &dataset{specs: specs, retention: retention}
	d.spec = &d.specs[0]
	n := o.minPoints + r.Intn(o.maxPoints-o.minPoints+1)
	d.points = gen.Points(r, n, span, t.Res)
	if o.ascending {
		sort.SliceStable(d.points, func(i, j int) bool { return d.points[i].TS.Before(d.points[j].TS) })
		for i := range d.points {
			d.points[i].ID = i
		}
	}
	db, err := dbh.Open(c.Dir, defs, o.opts)
	if err != nil {
		c.Violate("open", "cannot open database with generated schema %v: %v", describeTables(specs), err)
		return nil
	}
	d.db = db
	d.split = []string{"mem", "disk", "mixed", "mixed", "multi"}[r.Intn(5)]
	cut := map[int]bool{}
	switch d.split {
	case "mixed":
		cut[1+r.Intn(n-1)] = true
	case "multi":
		for k := 0; k < 2+r.Intn(12); k++ {
			cut[1+r.Intn(n-1)] = true
		}
	}
	for i := range d.points {
		if cut[i] {
			db.FlushAll()
			d.flushes++
		}
		if err := insertPoint(db, "inbound", &d.points[i]); err != nil {
			c.Violate("insert-error", "insert failed: %v", err)
			db.Close()
			return nil
		}
	}
	if !db.WaitCaughtUp(quiesceTimeout) {
		c.Inconclusive("ingestion did not catch up within %v", quiesceTimeout)
		db.Close()
		return nil
	}
	if d.split == "disk" {
		db.FlushAll()
		d.flushes++
	}
	d.cells, d.ood = d.spec.Aggregate(d.points)
	// virtual clock = newest timestamp among points passing the WHERE of any table
	for i := range d.points {
		p := &d.points[i]
		for ti := range d.specs {
			pass := true
			if w := d.specs[ti].Where; w != nil {
				in, ok := w.Eval(p.Dims)
				pass = ok && in
			}
			if pass && p.TS.After(d.now) {
				d.now = p.TS
			}
		}
	}
	if d.now.IsZero() {
		// the WHERE rejected every point: nothing to observe
		c.Obs("empty_datasets", 1)
		db.Close()
		return nil
	}
	d.until = ref.CeilTime(d.now, t.Res)
	d.asOf = ref.CeilTime(d.now.Add(-retention), t.Res)
	c.HashAdd(t.SQL(), n, d.split, span)
	return d
}

// storageRaceSig attributes a race report to the storage/scan state the snapshot and
// flush-independence properties depend on: one side in the ingest/flush path, the other in a scan.
// (A scan's top frame (*rowStore).iterate alone is not a marker: the only race it adds on the unchanged tree is the one
// between memstore.copy reading the bookkeeping flag offsetChanged and the flush closure clearing it, a flag no scan
// ever looks at; that report stays listed under race_reports_not_attributed.)
func storageRaceSig(report string) string {
	has := func(s string) bool { return strings.Contains(report, s) }
	ingest := has("bytetree.(*node).doUpdate") || has("bytetree.(*Tree).Update") || has("encoding.Sequence.UpdateValue") || has("(*rowStore).processInserts") || has("expr.(*aggregate).Update") || has("expr.(*aggregate).save")
	scan := has("(*fileStore).iterate") || has("core.(*flatten).Iterate") || has("encoding.Sequence.ValueAt") || has("bytetree.(*Tree).Walk") || has("bytetree.(*Tree).Copy") || has("encoding.Sequence.Merge") || has("rowMerger") || has("expr.(*aggregate).load")
	if ingest && scan {
		return "ingest-vs-scan:" + shortRaceKey(report)
	}
	return ""
}

func shortRaceKey(report string) string {
	var fns []string
	for _, l := range strings.Split(report, "\n") {
		l = strings.TrimSpace(l)
		if strings.HasPrefix(l, "github.com/getlantern/zenodb") && strings.Contains(l, "(") {
			f := l[:strings.LastIndex(l, "(")]
			f = strings.TrimPrefix(f, "github.com/getlantern/zenodb")
			fns = append(fns, f)
			if len(fns) >= 2 {
				break
			}
		}
	}
	return strings.Join(fns, "|")
}

func ctxBackground() context.Context { return context.Background() }
