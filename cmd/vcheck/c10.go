package main

// C10 — a partitioned cluster answers every query like a standalone database.
// Real server.Server nodes in-process (gRPC/TLS on loopback), barrier quiescence, differential
// against a standalone database fed the same points, plus per-partition exactly-once placement.

import (
	"fmt"
	"sort"
	"strings"
	"time"

	"github.com/getlantern/zenodb"

	"verif/internal/cluster"
	"verif/internal/dbh"
	"verif/internal/fw"
	"verif/internal/gen"
	"verif/internal/ref"
)

func init() {
	fw.Register(&fw.Property{
		ID:    "C10",
		Level: "exploration",
		Rule: "one case = one cluster of real server nodes in-process: 1-2 passthrough leaders, P in 1..5 partitions, 1-2 followers per partition, 1-2 tables with partitionBy in {none, subsets of s,n,b} (also listed in unsorted order); " +
			"generated points (in every other cluster some lack partition keys) inserted alternately through the leaders and into a standalone database; barrier points per (leader, partition) establish that every follower has applied everything before them; " +
			"then (1) every native cell of the standalone database must be held by exactly one partition with the same values and redundant followers must agree, (2) generated queries (pushdown-eligible or not, subqueries, crosstab, having, order, limit; each repeated so that redundant followers answer) must return the standalone's rows; " +
			"non-trivial = P >= 2 with data on >= 2 partitions and >= 1 non-pushdown query returning rows; distinct by schema+topology+query hash",
		Assumptions: []string{"real clocks, data 3-4h old, 48h retention, coarse resolutions; a pair is compared only if leader and standalone report the same until", "timers of the follower start-up and leader idle loop are divided by 10 (VERIF_TIMER_DIV)", "query shapes with findings recorded under C11 (SHIFT in non-pushdown plans, GROUP BY _ with CROSSTAB, LEN() of a partition key, subset-key table without partitionBy) are not generated here"},
		Cases: func(tier string) int {
			if tier == "quick" {
				return 8
			}
			return 120
		},
		Batch:            1,
		Workers:          4,
		PanicIsViolation: true,
		BenignCrash:      cluster.StartupRace,
		BatchTimeout:     20 * time.Minute,
		Env:              []string{"VERIF_TIMER_DIV=10"},
		Run:              runC10,
	})
}

type c10Env struct {
	cl      *cluster.Cluster
	solo    *dbh.DB
	specs   []ref.TableSpec
	partBy  [][]string
	points  []ref.Point
	N       int
	barrier map[string][]string // follower node addr -> barrier keys it must show (per table the same)
}

func c10Setup(c *fw.Ctx, proxied bool) *c10Env {
	r := c.Rand
	e := &c10Env{}
	e.N = 1 + r.Intn(5)
	nLeaders := 1 + r.Intn(2)
	red := 1 + r.Intn(2)
	nTables := 1 + r.Intn(2)
	res := []time.Duration{time.Minute, 2 * time.Minute, 5 * time.Minute}[r.Intn(3)]
	var cdefs []cluster.TableDef
	var sdefs []dbh.TableDef
	for i := 0; i < nTables; i++ {
		t := gen.Table(r, fmt.Sprintf("t%d", i), "inbound")
		t.Res = res
		var pb []string
		switch r.Intn(5) {
		case 0:
			t.GroupBy = nil // partition by all dims needs the table key to keep all dims
		case 1:
			pb = []string{"s"}
		case 2:
			pb = []string{"s", "n"}
		case 3:
			pb = []string{"b", "s"}
		default:
			pb = []string{"s", "n", "b"}
		}
		if pb != nil {
			t.GroupBy = []string{"s", "n", "b", "m"}
			if r.Intn(2) == 0 {
				// schema order need not be sorted
				r.Shuffle(len(pb), func(a, b int) { pb[a], pb[b] = pb[b], pb[a] })
			}
		}
		if c.Case%4 == 1 && i == 0 {
			// every fourth cluster: several partition keys listed in an order that is not the sorted one, on at
			// least two partitions (leader and followers must hash the key values in one and the same order)
			pb = []string{"s", "n", "b"}
			t.GroupBy = []string{"s", "n", "b", "m"}
			if e.N < 2 {
				e.N = 2 + r.Intn(3)
			}
		}
		e.specs = append(e.specs, t)
		e.partBy = append(e.partBy, pb)
		cdefs = append(cdefs, cluster.TableDef{Name: t.Name, SQL: t.SQL(), Retention: 48 * time.Hour, MaxFlush: time.Duration(50+r.Intn(500)) * time.Millisecond, PartitionBy: append([]string(nil), pb...)})
		sdefs = append(sdefs, dbh.TableDef{Name: t.Name, SQL: t.SQL(), Retention: 48 * time.Hour, Stream: "inbound", PartitionBy: append([]string(nil), pb...)})
	}
	var err error
	e.cl, err = cluster.New(cluster.Config{Dir: c.Dir + "/cluster", Tables: cdefs, NumLeaders: nLeaders, NumPartitions: e.N, Redundancy: red, Proxied: proxied, QueryTimeout: 60 * time.Second})
	if err != nil {
		c.Inconclusive("cluster: %v", err)
		return nil
	}
	if err := e.cl.StartAll(); err != nil {
		c.Inconclusive("cluster start: %v", err)
		e.cl.StopAll()
		return nil
	}
	e.solo, err = dbh.Open(c.Dir+"/solo", sdefs, dbh.Opts{})
	if err != nil {
		c.Inconclusive("standalone: %v", err)
		e.cl.StopAll()
		return nil
	}
	c.HashAdd(describeTables(e.specs), e.partBy, e.N, nLeaders, red)
	return e
}

func (e *c10Env) close() {
	e.cl.StopAll()
	e.solo.Close()
}

// insertBoth inserts a point through leader li and into the standalone database.
func (e *c10Env) insertBoth(li int, p *ref.Point) error {
	l := e.cl.Leaders[li%len(e.cl.Leaders)]
	if err := l.DB.Insert("inbound", p.TS, p.Dims, p.Vals); err != nil {
		return err
	}
	return insertPoint(e.solo, "inbound", p)
}

// barriers inserts, through every leader, barrier points that reach every partition of every table,
// and returns the keys each (partition, table) must eventually show.
func (e *c10Env) barriers(c *fw.Ctx, round int, base time.Time) map[int]map[string][]string {
	want := map[int]map[string][]string{} // partition -> table -> barrier s-values
	for li := range e.cl.Leaders {
		covered := map[string]bool{}
		for j := 0; j < 400; j++ {
			dims := map[string]interface{}{"s": fmt.Sprintf("zzbar-r%d-l%d-%d", round, li, j), "n": j % 4, "b": j%2 == 0}
			useful := false
			for ti := range e.specs {
				p := cluster.PartitionFor(dims, e.partBy[ti], e.N)
				k := fmt.Sprintf("%d/%s", p, e.specs[ti].Name)
				if !covered[k] {
					useful = true
				}
			}
			if !useful {
				continue
			}
			pt := ref.Point{TS: base, Dims: dims, Vals: map[string]interface{}{"x": 1.0, "y": 1.0, "z": 1.0}}
			if err := e.insertBoth(li, &pt); err != nil {
				c.Inconclusive("barrier insert failed: %v", err)
				return nil
			}
			for ti := range e.specs {
				// the barrier only counts for tables whose WHERE lets it pass
				if w := e.specs[ti].Where; w != nil {
					if in, ok := w.Eval(dims); !ok || !in {
						continue
					}
				}
				p := cluster.PartitionFor(dims, e.partBy[ti], e.N)
				k := fmt.Sprintf("%d/%s", p, e.specs[ti].Name)
				covered[k] = true
				if want[p] == nil {
					want[p] = map[string][]string{}
				}
				want[p][e.specs[ti].Name] = append(want[p][e.specs[ti].Name], dims["s"].(string))
			}
		}
	}
	return want
}

// waitBarriers polls the followers until each shows the barrier keys of its partition.
func (e *c10Env) waitBarriers(want map[int]map[string][]string, timeout time.Duration) (bool, string) {
	deadline := time.Now().Add(timeout)
	for {
		missing := ""
		for _, f := range e.cl.AllFollowers() {
			if !f.Up() {
				continue
			}
			for tbl, keys := range want[f.Partition] {
				res := dbh.RunQuery(ctxBackground(), f.DB, "SELECT _points FROM "+tbl, true, nil)
				have := map[string]bool{}
				for i := range res.Rows {
					if s, ok := res.Rows[i].Dims["s"].(string); ok {
						have[s] = true
					}
				}
				for _, k := range keys {
					if !have[k] {
						missing = fmt.Sprintf("follower %d.%d table %s lacks barrier %s (%s)", f.Partition, f.ID, tbl, k, res.ErrString())
					}
				}
			}
		}
		if missing == "" {
			return true, ""
		}
		if time.Now().After(deadline) {
			return false, missing
		}
		time.Sleep(50 * time.Millisecond)
	}
}

func runC10(c *fw.Ctx) {
	r := c.Rand
	e := c10Setup(c, false)
	if e == nil {
		return
	}
	defer e.close()
	base := time.Now().Add(-4 * time.Hour).Truncate(time.Hour)
	span := e.specs[0].Res * time.Duration(3+r.Intn(8))
	n := 80 + r.Intn(200)
	e.points = gen.Points(r, n, span, e.specs[0].Res)
	shift := base.Sub(gen.Base)
	// every other cluster also gets points that lack partition keys: all keys of one table (such points
	// have nothing to hash and must still end up together), or one key of several
	keyless := 0
	dropKeys := r.Intn(2) == 0
	for i := range e.points {
		e.points[i].TS = e.points[i].TS.Add(shift)
		if dropKeys && r.Intn(6) == 0 {
			keys := e.partBy[r.Intn(len(e.partBy))]
			if len(keys) > 0 {
				if r.Intn(3) == 0 {
					delete(e.points[i].Dims, keys[r.Intn(len(keys))])
				} else {
					for _, k := range keys {
						delete(e.points[i].Dims, k)
					}
				}
				if len(e.points[i].Dims) == 0 {
					e.points[i].Dims["m"] = "only"
				}
				keyless++
			}
		}
		if err := e.insertBoth(i, &e.points[i]); err != nil {
			c.Violate("c10-insert-error", "insert through leader failed: %v", err)
			return
		}
	}
	c.Obs("points_lacking_partition_keys", int64(keyless))
	want := e.barriers(c, 0, base.Add(span))
	if want == nil {
		return
	}
	lostCandidate := ""
	if ok, why := e.waitBarriers(want, 60*time.Second); !ok {
		// Either convergence is slow (inconclusive) or routing / delivery itself is broken. The
		// leaders run in this process: if nothing has been in flight to any follower for 45s
		// (submitted == delivered, both unchanged), whatever is missing now is lost for good and
		// the placement check below says where.
		if !c10Drained(45 * time.Second) {
			c.Inconclusive("barrier never became visible and entries are still in flight: %s", why)
			return
		}
		// the pipeline has been completely idle for 45s: whatever was going to arrive has arrived
		if ok2, why2 := e.waitBarriers(want, 5*time.Second); !ok2 {
			lostCandidate = why2
			// ... unless a follower has not even joined yet (a leader has nothing to send to a follower it does not
			// know of, so the pipeline looks idle): a follower that holds nothing at all in any table is not judged
			for _, f := range e.cl.AllFollowers() {
				if !f.Up() {
					continue
				}
				rows := 0
				for ti := range e.specs {
					rows += len(dbh.RunQuery(ctxBackground(), f.DB, "SELECT _points FROM "+e.specs[ti].Name, true, nil).Rows)
				}
				if rows == 0 && len(want[f.Partition]) > 0 {
					c.Inconclusive("follower %d.%d holds nothing in any table after the watchdog (never joined its leaders on this loaded machine?): %s", f.Partition, f.ID, why2)
					return
				}
			}
		}
		c.Obs("barrier_timeouts_with_drained_pipeline", 1)
	}
	if !e.solo.WaitCaughtUp(quiesceTimeout) {
		c.Inconclusive("standalone did not catch up")
		return
	}
	c.Obs("clusters", 1)
	c.Obs("points", int64(n))
	desc := map[string]interface{}{"tables": describeTables(e.specs), "partition_by": e.partBy, "partitions": e.N, "leaders": len(e.cl.Leaders), "followers_per_partition": len(e.cl.Followers[0])}
	partitionsWithData := c10Placement(c, e, desc)
	if c.Violated() {
		return
	}
	if lostCandidate != "" {
		c.ViolateData("c10-barrier-lost", desc, "with nothing in flight any more, a barrier point inserted through a leader is still missing on a follower of its partition: %s", lostCandidate)
		return
	}
	// queries
	nq := c.Pick(30, 60)
	nonPushdownRows := 0
	var samples []string
	for qi := 0; qi < nq && !c.Violated(); qi++ {
		ti := r.Intn(len(e.specs))
		d := &dataset{db: e.solo, spec: &e.specs[ti], specs: e.specs, points: e.points, retention: 48 * time.Hour}
		d.cells, _ = e.specs[ti].Aggregate(e.points)
		d.now = time.Now()
		d.until = ref.CeilTime(d.now, d.spec.Res)
		d.asOf = ref.CeilTime(d.now.Add(-48*time.Hour), d.spec.Res)
		var g genQ
		for {
			g = c11Program(c, d)
			if strings.Contains(g.SQL, "SHIFT(") || (strings.Contains(g.SQL, " GROUP BY _") && strings.Contains(g.SQL, "CROSSTAB")) || strings.Contains(g.SQL, "LEN(") {
				continue
			}
			break
		}
		sql := strings.Replace(g.SQL, " FROM t", " FROM "+d.spec.Name, -1)
		repeats := len(e.cl.Followers[0])
		for rep := 0; rep < repeats && !c.Violated(); rep++ {
			// One pair = the statement on the standalone database and on the cluster. Every node derives its own
			// "now" from the real clock (the leader, each follower, the standalone), so a pair that straddles a
			// period boundary can legitimately differ: a pair is only judged when standalone and leader agree on
			// until, and a disagreement is only reported when it shows in three consecutive pairs (a genuine
			// defect is deterministic, a boundary artefact is not).
			runPair := func() (local, dist *dbh.Result, same bool) {
				for attempt := 0; attempt < 3 && !same; attempt++ {
					local = e.solo.Query(sql, true)
					dist = dbh.RunQuery(ctxBackground(), e.cl.Leaders[(qi+rep)%len(e.cl.Leaders)].DB, sql, true, nil)
					same = local.Failed() || dist.Failed() || local.Until.Equal(dist.Until)
				}
				return
			}
			judge := func(local, dist *dbh.Result) (sig, detail string) {
				if local.Failed() != dist.Failed() {
					return "c10-error-differs", fmt.Sprintf("%q: standalone %q vs cluster %q", sql, local.ErrString(), dist.ErrString())
				}
				if local.Failed() {
					return "", ""
				}
				orderCheck := func() (string, string) {
					keys := c11OrderKeys(sql)
					for i := range local.Rows {
						if a, b := tupleOf(local, &local.Rows[i], keys), tupleOf(dist, &dist.Rows[i], keys); a != b {
							return "c10-order-differs", fmt.Sprintf("%q: row %d has key tuple (%s) on the standalone and (%s) on the cluster", sql, i, a, b)
						}
					}
					return "", ""
				}
				if g.HasLimit {
					if len(local.Rows) != len(dist.Rows) {
						return "c10-limit-count", fmt.Sprintf("%q: standalone returns %d rows, cluster %d", sql, len(local.Rows), len(dist.Rows))
					}
					if g.HasOrder {
						return orderCheck()
					}
					return "", ""
				}
				if diff := dbh.Diff(local, dist, 1e-9); diff != "" {
					return "c10-rows-differ", fmt.Sprintf("%q: the cluster (%d partitions) returns different rows than the standalone database: %s", sql, e.N, diff)
				}
				if g.HasOrder {
					return orderCheck()
				}
				return "", ""
			}
			local, dist, same := runPair()
			c.Obs("queries", 1)
			if len(samples) < 5 && rep == 0 {
				samples = append(samples, sql)
			}
			if !same {
				c.Obs("pairs_skipped_clock_boundary", 1)
				continue
			}
			sig, detail := judge(local, dist)
			for retry := 0; sig != "" && retry < 2; retry++ {
				l2, d2, same2 := runPair()
				if !same2 {
					sig = ""
					c.Obs("pairs_skipped_clock_boundary", 1)
					break
				}
				local, dist = l2, d2
				if sig, detail = judge(local, dist); sig == "" {
					c.Obs("transient_disagreements_not_reproduced", 1)
				}
			}
			if sig != "" {
				data := map[string]interface{}{"cluster": desc, "sql": sql, "cluster_plan": dist.Plan, "stats": fmt.Sprintf("%+v", dist.Stats)}
				c.ViolateData(sig, data, "%s (same disagreement in three consecutive runs of the pair)", detail)
				continue
			}
			if !local.Failed() && strings.Contains(dist.Plan, "cluster select") && len(local.Rows) > 0 {
				nonPushdownRows++
			}
		}
	}
	c.Nontrivial(e.N >= 2 && partitionsWithData >= 2 && nonPushdownRows > 0)
	c.Sample(map[string]interface{}{"cluster": desc, "points": n, "queries": samples})
}

// c10Placement checks that every native cell of the standalone is held by exactly one partition
// with the same values and that redundant followers agree. Returns how many partitions hold data.
func c10Placement(c *fw.Ctx, e *c10Env, desc interface{}) int {
	// A disagreement is only reported when it is still there after six more looks 3s apart (a table whose WHERE no
	// barrier point passes has no other evidence of convergence): a follower may have
	// been handed everything (barrier visible) and still be busy applying on a loaded machine, while a point that
	// is really lost or misplaced stays that way.
	for attempt := 0; ; attempt++ {
		found := false
		var fsig, fformat string
		var fdata interface{}
		var fargs []interface{}
		n := c10PlacementOnce(c, e, desc, func(sig string, data interface{}, format string, args ...interface{}) {
			if !found {
				found, fsig, fdata, fformat, fargs = true, sig, data, format, args
			}
		})
		if !found {
			if attempt > 0 {
				c.Obs("placement_disagreements_that_went_away", 1)
			}
			return n
		}
		if attempt >= 6 {
			c.ViolateData(fsig, fdata, fformat+" (still so after seven looks over 18s)", fargs...)
			return n
		}
		time.Sleep(3 * time.Second)
	}
}

func c10PlacementOnce(c *fw.Ctx, e *c10Env, desc interface{}, viol func(sig string, data interface{}, format string, args ...interface{})) int {
	withData := map[int]bool{}
	for ti := range e.specs {
		tbl := e.specs[ti].Name
		solo := e.solo.Query("SELECT * FROM "+tbl, true)
		if solo.Failed() {
			viol("c10-query-error", nil, "standalone dump failed: %s", solo.ErrString())
			return 0
		}
		seen := map[string]int{}
		for p, reps := range e.cl.Followers {
			var first *dbh.Result
			for ri, f := range reps {
				if !f.Up() {
					continue
				}
				res := dbh.RunQuery(ctxBackground(), f.DB, "SELECT * FROM "+tbl, true, nil)
				if res.Failed() {
					viol("c10-query-error", nil, "follower dump failed: %s", res.ErrString())
					return 0
				}
				if first == nil {
					first = res
					for i := range res.Rows {
						seen[res.Rows[i].ID()]++
						withData[p] = true
					}
					// values against the standalone
					si, _ := solo.Index()
					for i := range res.Rows {
						sr, ok := si[res.Rows[i].ID()]
						if !ok {
							viol("c10-follower-extra-row", desc, "table %s: follower of partition %d holds row %s %v that the standalone database does not have", tbl, p, res.Rows[i].ID(), res.Rows[i].Vals)
							return 0
						}
						for vi := range sr.Vals {
							if !ref.FloatEq(sr.Vals[vi], res.Rows[i].Vals[res.Field(solo.Fields[vi])], 1e-9) {
								viol("c10-follower-value", desc, "table %s partition %d row %s: field %s = %v on the follower, %v on the standalone (a cell split over partitions or applied twice)", tbl, p, res.Rows[i].ID(), solo.Fields[vi], res.Rows[i].Vals[res.Field(solo.Fields[vi])], sr.Vals[vi])
								return 0
							}
						}
					}
				} else if diff := dbh.Diff(first, res, 1e-9); diff != "" {
					viol("c10-replicas-differ", desc, "table %s: redundant followers %d and %d of partition %d hold different contents: %s", tbl, reps[0].ID, reps[ri].ID, p, diff)
					return 0
				}
			}
		}
		for i := range solo.Rows {
			id := solo.Rows[i].ID()
			if seen[id] != 1 {
				viol("c10-cell-not-on-exactly-one-partition", desc, "table %s (partitionBy %v): cell %s of the standalone database is held by %d partitions", tbl, e.partBy[ti], id, seen[id])
				return 0
			}
		}
		c.Obs("cells_placed", int64(len(solo.Rows)))
	}
	var ps []int
	for p := range withData {
		ps = append(ps, p)
	}
	sort.Ints(ps)
	return len(ps)
}

// c10Drained reports whether the leader-side follow pipeline has been completely idle for at least d (never less
// than 45s): nothing submitted to or delivered by any follower queue during that time, and submitted == delivered.
// "Idle" rather than "queues empty at one instant": on a loaded machine the leader may simply not have read the
// newest WAL entries yet, in which case the counters still move every few hundred milliseconds; only a pipeline
// that has finished - or is wedged - stays frozen that long. Gives up (false) after d + 2 minutes of movement.
func c10Drained(d time.Duration) bool {
	if d < 45*time.Second {
		d = 45 * time.Second
	}
	last := ""
	since := time.Now()
	deadline := time.Now().Add(d + 2*time.Minute)
	for time.Now().Before(deadline) {
		cnt := zenodb.VerifCounts()
		cur := fmt.Sprintf("%d/%d", cnt["follow.submitted"], cnt["follow.delivered"])
		if cur != last {
			last = cur
			since = time.Now()
		}
		if cnt["follow.submitted"] == cnt["follow.delivered"] && time.Since(since) >= d {
			return true
		}
		time.Sleep(100 * time.Millisecond)
	}
	return false
}
