package main

// C09 — ORDER BY sorts by the full key list; LIMIT/OFFSET slice that order.

import (
	"fmt"
	"sort"
	"strings"

	"verif/internal/dbh"
	"verif/internal/fw"
	"verif/internal/gen"
)

func init() {
	fw.Register(&fw.Property{
		ID:    "C09",
		Level: "exploration",
		Rule: "one case = generated table + points (small value domains => heavy ties, missing dims) + N queries with ORDER BY key lists of length 1-4 (fields, dims, _time in any position, mixed ASC/DESC) and LIMIT n OFFSET m with n,m from 0 to beyond the row count; " +
			"on every result: multiset equality with the unordered query, sortedness under the monitor's own lexicographic comparator (ties free), LIMIT/OFFSET window = rows m..m+n-1 by key tuple (ordered) or any sub-multiset of the right size (unordered); " +
			"hostile category: ORDER BY on a dim whose dynamic type differs between rows (no panic, multiset preserved, same-type rows mutually sorted); non-trivial = result has >=2 distinct key tuples and >=1 tie; distinct by dataset+query hash",
		Assumptions: []string{"ties may come in any order", "missing dims sort before present ones (ASC)", "ordering between values of different dynamic type is unspecified, only totality (no panic) and same-type order are required"},
		Cases: func(tier string) int {
			if tier == "quick" {
				return 72
			}
			return 900
		},
		Batch:            8,
		Workers:          8,
		PanicIsViolation: true,
		Run:              runC09,
	})
}

type orderKey struct {
	name string
	desc bool
}

func orderSQL(keys []orderKey) string {
	var parts []string
	for _, k := range keys {
		if k.desc {
			parts = append(parts, k.name+" DESC")
		} else if len(k.name)%2 == 0 {
			parts = append(parts, k.name)
		} else {
			parts = append(parts, k.name+" ASC")
		}
	}
	return strings.Join(parts, ", ")
}

// keyVal extracts the ordering value of a row for a key: fields first, then dims, _time = TS.
func keyVal(res *dbh.Result, row *dbh.Row, key string) interface{} {
	if key == "_time" {
		return row.TS
	}
	if i := res.Field(key); i >= 0 {
		return row.Vals[i]
	}
	v, ok := row.Dims[key]
	if !ok {
		return nil
	}
	return v
}

// cmpVals compares two ordering values; ok=false when the dynamic types differ (unspecified).
func cmpVals(a, b interface{}) (int, bool) {
	if a == nil || b == nil {
		switch {
		case a == nil && b == nil:
			return 0, true
		case a == nil:
			return -1, true
		default:
			return 1, true
		}
	}
	switch x := a.(type) {
	case int64:
		y, ok := b.(int64)
		if !ok {
			return 0, false
		}
		switch {
		case x < y:
			return -1, true
		case x > y:
			return 1, true
		}
		return 0, true
	case float64:
		y, ok := b.(float64)
		if !ok {
			return 0, false
		}
		switch {
		case x < y:
			return -1, true
		case x > y:
			return 1, true
		}
		return 0, true
	case int:
		y, ok := b.(int)
		if !ok {
			return 0, false
		}
		switch {
		case x < y:
			return -1, true
		case x > y:
			return 1, true
		}
		return 0, true
	case string:
		y, ok := b.(string)
		if !ok {
			return 0, false
		}
		return strings.Compare(x, y), true
	case bool:
		y, ok := b.(bool)
		if !ok {
			return 0, false
		}
		switch {
		case x == y:
			return 0, true
		case !x:
			return -1, true
		}
		return 1, true
	}
	return 0, false
}

// cmpRows compares lexicographically; ok=false if an unspecified (mixed-type) comparison decides.
func cmpRows(res *dbh.Result, a, b *dbh.Row, keys []orderKey) (int, bool) {
	for _, k := range keys {
		c, ok := cmpVals(keyVal(res, a, k.name), keyVal(res, b, k.name))
		if !ok {
			return 0, false
		}
		if k.desc {
			c = -c
		}
		if c != 0 {
			return c, true
		}
	}
	return 0, true
}

func tupleOf(res *dbh.Result, row *dbh.Row, keys []orderKey) string {
	var parts []string
	for _, k := range keys {
		parts = append(parts, dbh.CanonVal(keyVal(res, row, k.name)))
	}
	return strings.Join(parts, "|")
}

func rowFingerprint(res *dbh.Result, row *dbh.Row) string {
	return fmt.Sprintf("%d|%s|%v", row.TS, row.Key, row.Vals)
}

func multiset(res *dbh.Result) map[string]int {
	m := map[string]int{}
	for i := range res.Rows {
		m[rowFingerprint(res, &res.Rows[i])]++
	}
	return m
}

func runC09(c *fw.Ctx) {
	r := c.Rand
	d := buildDataset(c, dsOpts{minPoints: 60, maxPoints: 260, spanPeriods: [2]int{3, 10}, opts: dbh.Opts{VirtualTime: true}})
	if d == nil {
		return
	}
	defer d.db.Close()
	t := d.spec
	names := []string{"_points"}
	for i := range t.Fields {
		names = append(names, t.Fields[i].Name)
	}
	avail := t.GroupBy
	if len(avail) == 0 {
		avail = gen.GroupDims
	}
	nq := c.Pick(60, 150)
	nontrivial := false
	var samples []string
	for qi := 0; qi < nq && !c.Violated(); qi++ {
		// base query
		var sel []string
		if r.Intn(4) == 0 {
			sel = []string{"*"}
		} else {
			perm := r.Perm(len(names))
			for _, i := range perm[:1+r.Intn(len(names))] {
				sel = append(sel, names[i])
			}
		}
		base := "SELECT " + strings.Join(sel, ", ") + " FROM t"
		outDims := avail
		if r.Intn(2) == 0 {
			perm := r.Perm(len(avail))
			outDims = nil
			for _, i := range perm[:1+r.Intn(len(avail))] {
				outDims = append(outDims, avail[i])
			}
			sort.Strings(outDims)
			base += " GROUP BY " + strings.Join(outDims, ", ")
			if r.Intn(3) == 0 {
				base += fmt.Sprintf(", period(%v)", t.Res*2)
			}
		}
		// key list
		hostile := false
		var keys []orderKey
		ordered := r.Intn(6) != 0
		if ordered {
			cands := []string{"_time", "_time"}
			for _, dname := range outDims {
				cands = append(cands, dname)
			}
			selNames := sel
			if sel[0] == "*" {
				selNames = names
			}
			cands = append(cands, selNames...)
			k := 1 + r.Intn(4)
			for j := 0; j < k; j++ {
				key := cands[r.Intn(len(cands))]
				if key == "m" {
					hostile = true
				}
				keys = append(keys, orderKey{key, r.Intn(2) == 0})
			}
		}
		full := d.db.Query(base, true)
		if full.Failed() {
			c.Violate("c09-query-error", "%q failed: %s", base, full.ErrString())
			break
		}
		N := len(full.Rows)
		q := base
		if ordered {
			q += " ORDER BY " + orderSQL(keys)
		}
		limited := r.Intn(2) == 0
		n, m := -1, 0
		if limited {
			choose := func() int {
				switch r.Intn(5) {
				case 0:
					return 0
				case 1:
					return N + r.Intn(5)
				case 2:
					return N
				default:
					return r.Intn(N + 2)
				}
			}
			n = choose()
			if r.Intn(2) == 0 {
				m = choose()
				q += fmt.Sprintf(" LIMIT %d, %d", m, n)
			} else {
				q += fmt.Sprintf(" LIMIT %d", n)
			}
		}
		if !ordered && !limited {
			continue
		}
		c.Obs("queries", 1)
		if hostile {
			c.Obs("queries_mixed_type_key", 1)
		}
		if len(samples) < 4 {
			samples = append(samples, q)
		}
		c.HashAdd(q)
		data := map[string]interface{}{"dataset": d.describe(), "sql": q, "unordered": base}
		res := d.db.Query(q, true)
		if res.Failed() {
			c.ViolateData("c09-query-error", data, "%q failed: %s", q, res.ErrString())
			break
		}
		fullSet := multiset(full)
		// (0) the ordered, unlimited result for positional comparison
		var orderedFull *dbh.Result
		if ordered {
			if limited {
				orderedFull = d.db.Query(base+" ORDER BY "+orderSQL(keys), true)
				if orderedFull.Failed() {
					c.ViolateData("c09-query-error", data, "%q failed: %s", base+" ORDER BY ...", orderedFull.ErrString())
					break
				}
			} else {
				orderedFull = res
			}
			// (1) multiset equality with the unordered query
			got := multiset(orderedFull)
			if len(orderedFull.Rows) != N || !sameMultiset(got, fullSet) {
				c.ViolateData("c09-order-changes-rows", data, "ORDER BY %s changed the multiset of rows: %d rows ordered vs %d unordered", orderSQL(keys), len(orderedFull.Rows), N)
				break
			}
			// (2) sortedness
			distinct := map[string]bool{}
			tie := false
			for i := 0; i+1 < len(orderedFull.Rows); i++ {
				a, b := &orderedFull.Rows[i], &orderedFull.Rows[i+1]
				cmp, ok := cmpRows(orderedFull, a, b, keys)
				distinct[tupleOf(orderedFull, a, keys)] = true
				if !ok {
					c.Obs("adjacent_pairs_unspecified_mixed_type", 1)
					continue
				}
				c.Obs("adjacent_pairs_checked", 1)
				if cmp == 0 {
					tie = true
				}
				if cmp > 0 {
					sig := "c09-not-sorted"
					for ki, k := range keys {
						if k.name == "_time" && ki < len(keys)-1 {
							sig = "c09-not-sorted-time-before-other-keys"
						}
					}
					c.ViolateData(sig, data, "%q: rows %d and %d are out of order under ORDER BY %s: key tuples (%s) then (%s)", q, i, i+1, orderSQL(keys), tupleOf(orderedFull, a, keys), tupleOf(orderedFull, b, keys))
					break
				}
			}
			if len(distinct) >= 2 && tie {
				nontrivial = true
			}
			if c.Violated() {
				break
			}
		}
		// (3) LIMIT / OFFSET
		if limited {
			want := N - m
			if want > n {
				want = n
			}
			if want < 0 {
				want = 0
			}
			if len(res.Rows) != want {
				sig := "c09-limit-count"
				if n == 0 {
					sig = "c09-limit-zero"
				}
				c.ViolateData(sig, data, "%q: got %d rows, expected max(0, min(n=%d, N=%d - m=%d)) = %d", q, len(res.Rows), n, N, m, want)
				break
			}
			got := multiset(res)
			for fp, cnt := range got {
				if fullSet[fp] < cnt {
					c.ViolateData("c09-limit-foreign-row", data, "%q returned a row that is not in the full result (or more often): %s", q, fp)
					break
				}
			}
			if ordered && !hostile {
				for i := range res.Rows {
					if m+i >= len(orderedFull.Rows) {
						break
					}
					a := tupleOf(res, &res.Rows[i], keys)
					b := tupleOf(orderedFull, &orderedFull.Rows[m+i], keys)
					if a != b {
						c.ViolateData("c09-limit-window", data, "%q: row %d has key tuple (%s) but row %d of the full ordered result has (%s)", q, i, a, m+i, b)
						break
					}
				}
			}
			c.Obs("limit_checks", 1)
		}
	}
	c.Nontrivial(nontrivial)
	c.Sample(map[string]interface{}{"dataset": d.describe(), "queries": samples})
}

func sameMultiset(a, b map[string]int) bool {
	if len(a) != len(b) {
		return false
	}
	for k, v := range a {
		if b[k] != v {
			return false
		}
	}
	return true
}
