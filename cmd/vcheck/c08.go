package main

// C08 — WHERE, HAVING and IN-subquery filters keep exactly the matching rows; FROM (subquery)
// equals evaluating the outer query over the materialised subquery result.

import (
	"fmt"
	"math/rand"
	"sort"
	"strings"
	"time"

	"verif/internal/dbh"
	"verif/internal/fw"
	"verif/internal/gen"
	"verif/internal/ref"
)

func init() {
	fw.Register(&fw.Property{
		ID:    "C08",
		Level: "exploration",
		Rule: "one case = one DB with table t (no WHERE) and 5 sibling tables defined with generated WHERE predicates on the same stream + generated points; checks: " +
			"(W1) t queried WHERE p == sibling t_p queried without (incl. LIKE, IS NULL, NOT, mixed-type/missing dims); (W2) t WHERE p vs the reference aggregator over the points satisfying p (well-typed subset); " +
			"(H) HAVING result == rows of the HAVING-free query (plus the fields HAVING mentions) that satisfy the predicate under the monitor's evaluator, no _having column; " +
			"(I) dim IN (SELECT dim ...) == IN (literal list of the subquery's distinct values); (F) outer aggregate over FROM (subquery) == re-aggregation of the materialised subquery rows; " +
			"non-trivial = the filter removes some but not all rows; distinct by dataset+query hash",
		Assumptions: []string{"query-time WHERE only sees the dims kept in the table's key, so the tables group by all generated dims", "HAVING comparisons between two fields only use strict operators (both-unset is indistinguishable from 0 in flat rows)", "database clock = newest accepted timestamp"},
		Cases: func(tier string) int {
			if tier == "quick" {
				return 48
			}
			return 600
		},
		Batch:            6,
		Workers:          8,
		RaceEvery:        4,
		PanicIsViolation: true,
		Run:              runC08,
	})
}

// richPred generates predicates beyond the reference evaluator's domain (differential only).
func richPred(r *rand.Rand, depth int) string {
	if depth > 0 && r.Intn(3) == 0 {
		switch r.Intn(3) {
		case 0:
			return "(" + richPred(r, depth-1) + " AND " + richPred(r, depth-1) + ")"
		case 1:
			return "(" + richPred(r, depth-1) + " OR " + richPred(r, depth-1) + ")"
		default:
			return "NOT (" + richPred(r, depth-1) + ")"
		}
	}
	switch r.Intn(9) {
	case 0:
		return fmt.Sprintf("s LIKE '%s%%'", []string{"a", "d", "b"}[r.Intn(3)])
	case 1:
		return fmt.Sprintf("m %s", []string{"IS NULL", "IS NOT NULL"}[r.Intn(2)])
	case 2:
		return fmt.Sprintf("fl %s", []string{"IS NULL", "IS NOT NULL"}[r.Intn(2)])
	case 3:
		return fmt.Sprintf("m = '%s'", []string{"0", "1", "u"}[r.Intn(3)])
	case 4:
		return fmt.Sprintf("m %s %d", []string{"=", "<>", "<", ">"}[r.Intn(4)], r.Intn(3))
	case 5:
		return fmt.Sprintf("LEN(s) %s %d", []string{"=", ">", "<"}[r.Intn(3)], 1+r.Intn(2))
	case 6:
		return fmt.Sprintf("fl %s %v", []string{"=", "<>", "<", ">"}[r.Intn(4)], []float64{1.5, 2, 0}[r.Intn(3)])
	case 7:
		return fmt.Sprintf("CONCAT('-', s, n) %s '%s-%d'", []string{"=", "<>"}[r.Intn(2)], gen.StrVals[r.Intn(4)], r.Intn(4))
	default:
		return gen.Pred(r, 1).SQL()
	}
}

func runC08(c *fw.Ctx) {
	r := c.Rand
	fields := gen.Fields(r, 4)
	res := gen.Resolutions[r.Intn(len(gen.Resolutions))]
	mk := func(name string) ref.TableSpec {
		return ref.TableSpec{Name: name, Stream: "inbound", Res: res, GroupBy: append([]string(nil), gen.GroupDims...), Fields: fields}
	}
	specs := []ref.TableSpec{mk("t")}
	type sib struct {
		name string
		pred *ref.Pred // nil => rich (differential only)
		sql  string
	}
	var sibs []sib
	for i := 0; i < 5; i++ {
		s := sib{name: fmt.Sprintf("tp%d", i)}
		if i < 3 {
			s.pred = gen.Pred(r, 2)
			s.sql = s.pred.SQL()
		} else {
			s.sql = richPred(r, 2)
		}
		sibs = append(sibs, s)
	}
	spanP := 4 + r.Intn(16)
	span := time.Duration(spanP) * res
	retention := span + res*time.Duration(2+r.Intn(4))
	defs := []dbh.TableDef{{Name: "t", SQL: specs[0].SQL(), Retention: retention, Stream: "inbound"}}
	for _, s := range sibs {
		sql := strings.Replace(specs[0].SQL(), " FROM inbound ", " FROM inbound WHERE "+s.sql+" ", 1)
		defs = append(defs, dbh.TableDef{Name: s.name, SQL: sql, Retention: retention, Stream: "inbound"})
	}
	n := 60 + r.Intn(240)
	points := gen.Points(r, n, span, res)
	if c.Case%2 == 1 {
		// odd cases: some points carry no dimension at all, or only the sometimes-missing ones (rows with an
		// empty or tiny key); the reference evaluator does not cover missing dimensions, the differentials do
		for i := range points {
			switch r.Intn(12) {
			case 0:
				points[i].Dims = map[string]interface{}{}
			case 1:
				for _, k := range []string{"s", "n", "b"} {
					delete(points[i].Dims, k)
				}
			}
		}
		c.Obs("datasets_with_dimensionless_points", 1)
	}
	db, err := dbh.Open(c.Dir, defs, dbh.Opts{VirtualTime: true})
	if err != nil {
		c.Violate("open", "cannot open database: %v (defs %v)", err, defs)
		return
	}
	defer db.Close()
	flushAt := map[int]bool{}
	for k := 0; k < r.Intn(4); k++ {
		flushAt[1+r.Intn(n-1)] = true
	}
	for i := range points {
		if flushAt[i] {
			db.FlushAll()
		}
		if err := insertPoint(db, "inbound", &points[i]); err != nil {
			c.Violate("insert-error", "%v", err)
			return
		}
	}
	if !db.WaitCaughtUp(quiesceTimeout) {
		c.Inconclusive("ingestion did not catch up")
		return
	}
	t := &specs[0]
	d := &dataset{db: db, spec: t, specs: specs, points: points, retention: retention}
	d.cells, _ = t.Aggregate(points)
	d.now = maxTS(points)
	d.until = ref.CeilTime(d.now, res)
	d.asOf = ref.CeilTime(d.now.Add(-retention), res)
	c.HashAdd(t.SQL(), n)
	nontrivial := 0
	var samples []string
	note := func(s string) {
		if len(samples) < 6 {
			samples = append(samples, s)
		}
	}
	desc := map[string]interface{}{"table": t.SQL(), "points": n}

	// ---------------- W1 / W2: WHERE
	for _, s := range sibs {
		if c.Violated() {
			break
		}
		for k := 0; k < 2; k++ {
			fs := genSelect(r, t)
			dims, keep, clause := genGroupDims(r, t)
			tail := ""
			if clause != "" {
				tail = " GROUP BY " + clause
			}
			P := time.Duration(0)
			if r.Intn(3) == 0 {
				P = res * time.Duration(1+r.Intn(4))
				if tail == "" {
					tail = fmt.Sprintf(" GROUP BY period(%v)", P)
				} else {
					tail += fmt.Sprintf(", period(%v)", P)
				}
			}
			q1 := fmt.Sprintf("SELECT %s FROM t WHERE %s%s", selectSQL(fs), s.sql, tail)
			q2 := fmt.Sprintf("SELECT %s FROM %s%s", selectSQL(fs), s.name, tail)
			r1 := db.Query(q1, true)
			r2 := db.Query(q2, true)
			c.Obs("where_differentials", 1)
			note(q1)
			if r1.Failed() {
				c.ViolateData("c08-query-error", desc, "%q failed: %s", q1, r1.ErrString())
				break
			}
			if diff := dbh.Diff(r2, r1, 1e-9); diff != "" {
				c.ViolateData("c08-where-vs-filtered-table", map[string]interface{}{"dataset": desc, "query": q1, "sibling": q2},
					"%q differs from %q (table defined with the same WHERE, i.e. only matching points inserted): %s", q1, q2, diff)
				break
			}
			unf := db.Query(fmt.Sprintf("SELECT %s FROM t%s", selectSQL(fs), tail), true)
			if len(r1.Rows) > 0 && len(r1.Rows) < len(unf.Rows) {
				nontrivial++
			}
			if s.pred != nil && tail != "" {
				// W2: independent evaluator
				var pts []ref.Point
				ood := false
				for i := range points {
					in, ok := s.pred.Eval(points[i].Dims)
					if !ok {
						ood = true
						break
					}
					if in {
						pts = append(pts, points[i])
					}
				}
				if !ood {
					cells, _ := t.Aggregate(pts)
					effP := res
					if P > 0 {
						effP = P
					}
					if effP > d.until.Sub(d.asOf) {
						effP = d.until.Sub(d.asOf)
					}
					buckets := ref.Regroup(cells, t.Fields, dims, keep, effP, d.asOf, d.until)
					nv := compareBuckets(c, "WHERE vs reference", t, r1, buckets, fs, "c08-where-ref", map[string]interface{}{"dataset": desc, "query": q1})
					c.Obs("where_reference_values", int64(nv))
				}
			}
		}
	}

	// ---------------- H: HAVING
	names := []string{"_points"}
	for i := range t.Fields {
		names = append(names, t.Fields[i].Name)
	}
	for k := 0; k < c.Pick(8, 16) && !c.Violated(); k++ {
		// HAVING predicate over 1-2 fields
		type atom struct {
			l, op, rname string
			rc           float64
			rIsField     bool
		}
		mkAtom := func() atom {
			a := atom{l: names[r.Intn(len(names))]}
			if r.Intn(4) == 0 {
				a.rIsField = true
				a.rname = names[r.Intn(len(names))]
				a.op = []string{"<", ">", "<>"}[r.Intn(3)]
			} else {
				a.rc = float64(r.Intn(30) - 5)
				a.op = []string{"<", ">", "<=", ">=", "=", "<>"}[r.Intn(6)]
			}
			return a
		}
		atoms := []atom{mkAtom()}
		if k%3 == 2 {
			// a constant close to (relative distance ~3e-6), but different from, a value that occurs:
			// equality must be exact
			probe := db.Query(fmt.Sprintf("SELECT %s FROM t GROUP BY s, n", atoms[0].l), true)
			if !probe.Failed() && len(probe.Rows) > 0 {
				v := probe.Rows[r.Intn(len(probe.Rows))].Vals[0]
				if v != 0 {
					atoms[0].rIsField = false
					atoms[0].rc = v * (1 + 3e-6)
					atoms[0].op = []string{"=", "<>"}[r.Intn(2)]
					c.Obs("having_near_equal_constants", 1)
				}
			}
		}
		conj := ""
		if r.Intn(3) == 0 {
			atoms = append(atoms, mkAtom())
			conj = []string{"AND", "OR"}[r.Intn(2)]
		}
		atomSQL := func(a atom) string {
			if a.rIsField {
				return fmt.Sprintf("%s %s %s", a.l, a.op, a.rname)
			}
			return fmt.Sprintf("%s %s %v", a.l, a.op, a.rc)
		}
		havingSQL := atomSQL(atoms[0])
		if conj != "" {
			havingSQL = atomSQL(atoms[0]) + " " + conj + " " + atomSQL(atoms[1])
		}
		// select list: subset of names (may omit the HAVING fields)
		perm := r.Perm(len(names))
		var sel []string
		for _, i := range perm[:1+r.Intn(len(names))] {
			sel = append(sel, names[i])
		}
		needed := map[string]bool{}
		for _, s := range sel {
			needed[s] = true
		}
		selAll := append([]string(nil), sel...)
		for _, a := range atoms {
			for _, f := range []string{a.l, a.rname} {
				if f != "" && !needed[f] {
					needed[f] = true
					selAll = append(selAll, f)
				}
			}
		}
		_, _, clause := genGroupDims(r, t)
		if clause == "" {
			clause = "s, n"
		}
		tail := " GROUP BY " + clause
		if r.Intn(3) == 0 {
			tail += fmt.Sprintf(", period(%v)", res*time.Duration(1+r.Intn(3)))
		}
		// every fourth check: the field HAVING refers to is an output column whose alias shadows a table field
		// of the same name but is a different expression; HAVING is about output values
		selExpr := func(name string) string { return name }
		inSel := false
		for _, n := range sel {
			inSel = inSel || n == atoms[0].l
		}
		if k%4 == 1 && atoms[0].l != "_points" && inSel {
			shadow := atoms[0].l
			selExpr = func(name string) string {
				if name == shadow {
					return fmt.Sprintf("%s + _points AS %s", shadow, shadow)
				}
				return name
			}
			c.Obs("having_on_alias_shadowing_table_field", 1)
		}
		render := func(list []string) string {
			var out []string
			for _, n := range list {
				out = append(out, selExpr(n))
			}
			return strings.Join(out, ", ")
		}
		qh := fmt.Sprintf("SELECT %s FROM t%s HAVING %s", render(sel), tail, havingSQL)
		qf := fmt.Sprintf("SELECT %s FROM t%s", render(selAll), tail)
		rh := db.Query(qh, true)
		rf := db.Query(qf, true)
		c.Obs("having_checks", 1)
		note(qh)
		data := map[string]interface{}{"dataset": desc, "query": qh, "having_free": qf}
		if rh.Failed() || rf.Failed() {
			c.ViolateData("c08-query-error", data, "%q / %q failed: %s %s", qh, qf, rh.ErrString(), rf.ErrString())
			break
		}
		for _, f := range rh.Fields {
			if f == "_having" {
				c.ViolateData("c08-having-column-exposed", data, "%q exposes the helper column _having (fields %v)", qh, rh.Fields)
			}
		}
		if len(rh.Fields) != len(sel) {
			c.ViolateData("c08-having-fields", data, "%q returns fields %v, expected %v", qh, rh.Fields, sel)
			break
		}
		evalAtom := func(a atom, row *dbh.Row) bool {
			l := row.Vals[rf.Field(a.l)]
			rv := a.rc
			if a.rIsField {
				rv = row.Vals[rf.Field(a.rname)]
			}
			switch a.op {
			case "<":
				return l < rv
			case ">":
				return l > rv
			case "<=":
				return l <= rv
			case ">=":
				return l >= rv
			case "=":
				return l == rv
			default:
				return l != rv
			}
		}
		want := map[string]*dbh.Row{}
		for i := range rf.Rows {
			row := &rf.Rows[i]
			ok := evalAtom(atoms[0], row)
			if conj == "AND" {
				ok = ok && evalAtom(atoms[1], row)
			} else if conj == "OR" {
				ok = ok || evalAtom(atoms[1], row)
			}
			if ok {
				want[row.ID()] = row
			}
		}
		got, dup := rh.Index()
		if dup != "" {
			c.ViolateData("c08-having-duplicate", data, "%q returned row %s twice", qh, dup)
			break
		}
		for id, wr := range want {
			gr, ok := got[id]
			if !ok {
				// a row whose selected fields are all unset is not emitted at all: only demand it if some selected value is non-zero
				nonzero := false
				for _, s := range sel {
					if wr.Vals[rf.Field(s)] != 0 {
						nonzero = true
					}
				}
				if !nonzero {
					continue
				}
				c.ViolateData("c08-having-drops-matching", data, "%q lacks row %s although the HAVING-free row %v satisfies %s", qh, id, wr.Vals, havingSQL)
				break
			}
			for si, s := range sel {
				if gr.Vals[si] != wr.Vals[rf.Field(s)] && !ref.FloatEq(gr.Vals[si], wr.Vals[rf.Field(s)], 1e-9) {
					c.ViolateData("c08-having-value", data, "%q row %s field %s = %v, HAVING-free query says %v", qh, id, s, gr.Vals[si], wr.Vals[rf.Field(s)])
				}
			}
		}
		for id := range got {
			if _, ok := want[id]; !ok {
				c.ViolateData("c08-having-keeps-nonmatching", data, "%q returns row %s (%v) that does not satisfy %s in the HAVING-free query (%v)", qh, id, got[id].Vals, havingSQL, rowVals(rf, id))
				break
			}
		}
		if len(want) > 0 && len(want) < len(rf.Rows) {
			nontrivial++
		}
	}

	// ---------------- I: IN (SELECT dim ...)
	prevSub, prevDim, prevLits := "", "", ""
	for k := 0; k < c.Pick(6, 12) && !c.Violated() && c.Case%2 == 0; k++ {
		// only dims that every point has (even cases; odd cases contain points without s, n, b): a subquery row lacking the dim yields a NULL candidate, and
		// whether NULL IN (..., NULL) matches is not something the statement fixes
		dim := []string{"s", "n", "b"}[r.Intn(3)]
		sub := fmt.Sprintf("SELECT %s FROM t", dim)
		if r.Intn(2) == 0 {
			sub += " WHERE " + gen.Pred(r, 1).SQL()
		}
		sub += " GROUP BY " + dim
		if r.Intn(2) == 0 {
			sub += fmt.Sprintf(" HAVING _points > %d", r.Intn(n/4+1))
		}
		rs := db.SubQuery(sub, true)
		if rs.Failed() {
			c.ViolateData("c08-query-error", desc, "%q failed: %s", sub, rs.ErrString())
			break
		}
		vals := map[string]bool{}
		var lits []string
		mixed := false
		for i := range rs.Rows {
			v, ok := rs.Rows[i].Dims[dim]
			if !ok {
				continue
			}
			var l string
			switch x := v.(type) {
			case string:
				l = "'" + x + "'"
			case bool:
				l = strings.ToUpper(fmt.Sprint(x))
				mixed = mixed || dim == "m"
			case int:
				l = fmt.Sprint(x)
			case float64:
				l = fmt.Sprint(x)
				if x == float64(int(x)) {
					l = fmt.Sprintf("%.1f", x)
				}
			}
			if !vals[l] {
				vals[l] = true
				lits = append(lits, l)
			}
		}
		if len(lits) == 0 || mixed {
			continue
		}
		sort.Strings(lits)
		fs := genSelect(r, t)
		_, _, clause := genGroupDims(r, t)
		tail := ""
		if clause != "" {
			tail = " GROUP BY " + clause
		}
		q1 := fmt.Sprintf("SELECT %s FROM t WHERE %s IN (%s)%s", selectSQL(fs), dim, sub, tail)
		q2 := fmt.Sprintf("SELECT %s FROM t WHERE %s IN (%s)%s", selectSQL(fs), dim, strings.Join(lits, ", "), tail)
		if prevSub != "" && r.Intn(2) == 0 {
			// two IN-subqueries in one WHERE
			conj := []string{"AND", "OR"}[r.Intn(2)]
			q1 = fmt.Sprintf("SELECT %s FROM t WHERE %s IN (%s) %s %s IN (%s)%s", selectSQL(fs), prevDim, prevSub, conj, dim, sub, tail)
			q2 = fmt.Sprintf("SELECT %s FROM t WHERE %s IN (%s) %s %s IN (%s)%s", selectSQL(fs), prevDim, prevLits, conj, dim, strings.Join(lits, ", "), tail)
			c.Obs("in_subquery_pairs", 1)
		}
		prevSub, prevDim, prevLits = sub, dim, strings.Join(lits, ", ")
		r1 := db.Query(q1, true)
		r2 := db.Query(q2, true)
		c.Obs("in_subquery_checks", 1)
		note(q1)
		if r1.Failed() {
			c.ViolateData("c08-query-error", desc, "%q failed: %s", q1, r1.ErrString())
			break
		}
		if diff := dbh.Diff(r2, r1, 1e-9); diff != "" {
			c.ViolateData("c08-in-subquery-vs-literals", map[string]interface{}{"dataset": desc, "query": q1, "literal": q2}, "%q differs from %q (literal list of the subquery's distinct values): %s", q1, q2, diff)
			break
		}
		all := db.Query(fmt.Sprintf("SELECT %s FROM t%s", selectSQL(fs), tail), true)
		if len(r1.Rows) > 0 && len(r1.Rows) < len(all.Rows) {
			nontrivial++
		}
	}

	// ---------------- F: FROM (subquery)
	for k := 0; k < c.Pick(6, 12) && !c.Violated(); k++ {
		inner := names[1+r.Intn(len(names)-1)]
		subDims := []string{"s", "n", "b"}
		r.Shuffle(3, func(i, j int) { subDims[i], subDims[j] = subDims[j], subDims[i] })
		subDims = subDims[:1+r.Intn(3)]
		sort.Strings(subDims)
		sub := fmt.Sprintf("SELECT %s FROM t GROUP BY %s", inner, strings.Join(subDims, ", "))
		outDims := subDims[:1+r.Intn(len(subDims))]
		agg := []string{"SUM", "MAX", "MIN", "COUNT", "AVG"}[r.Intn(5)]
		q := fmt.Sprintf("SELECT %s(%s) AS x FROM (%s) GROUP BY %s", agg, inner, sub, strings.Join(outDims, ", "))
		rq := db.Query(q, true)
		rsub := db.Query(sub, true)
		c.Obs("from_subquery_checks", 1)
		note(q)
		data := map[string]interface{}{"dataset": desc, "query": q, "subquery": sub}
		if rq.Failed() || rsub.Failed() {
			c.ViolateData("c08-query-error", data, "%q failed: %s %s", q, rq.ErrString(), rsub.ErrString())
			break
		}
		type acc struct {
			sum, min, max float64
			n             int
		}
		want := map[string]*acc{}
		fi := rsub.Field(inner)
		for i := range rsub.Rows {
			row := &rsub.Rows[i]
			key := ref.KeyOf(row.Dims, outDims)
			id := fmt.Sprintf("%d|%s", row.TS, ref.CanonKey(key))
			a := want[id]
			v := row.Vals[fi]
			if a == nil {
				a = &acc{min: v, max: v}
				want[id] = a
			}
			a.sum += v
			a.n++
			if v < a.min {
				a.min = v
			}
			if v > a.max {
				a.max = v
			}
		}
		got, dup := rq.Index()
		if dup != "" {
			c.ViolateData("c08-from-duplicate", data, "%q returned row %s twice", q, dup)
			break
		}
		for id, a := range want {
			var w float64
			switch agg {
			case "SUM":
				w = a.sum
			case "MAX":
				w = a.max
			case "MIN":
				w = a.min
			case "COUNT":
				w = float64(a.n)
			default:
				w = a.sum / float64(a.n)
			}
			gr, ok := got[id]
			if !ok {
				c.ViolateData("c08-from-missing-row", data, "%q lacks row %s that the materialised subquery rows produce (%s = %v)", q, id, agg, w)
				break
			}
			if !ref.FloatEq(gr.Vals[0], w, 1e-9) {
				c.ViolateData("c08-from-value", data, "%q row %s: x = %v, re-aggregating the materialised subquery rows gives %v", q, id, gr.Vals[0], w)
				break
			}
		}
		for id := range got {
			if _, ok := want[id]; !ok {
				c.ViolateData("c08-from-extra-row", data, "%q returns row %s that the materialised subquery does not produce", q, id)
				break
			}
		}
		if len(want) > 0 && len(want) < len(rsub.Rows) {
			nontrivial++
		}
	}
	c.Nontrivial(nontrivial > 0)
	c.Sample(map[string]interface{}{"dataset": desc, "sibling_predicates": func() []string {
		var o []string
		for _, s := range sibs {
			o = append(o, s.sql)
		}
		return o
	}(), "queries": samples})
}

func rowVals(res *dbh.Result, id string) []float64 {
	for i := range res.Rows {
		if res.Rows[i].ID() == id {
			return res.Rows[i].Vals
		}
	}
	return nil
}
