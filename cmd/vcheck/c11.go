package main

// C11 — the distributed query plan is equivalent to the local plan.
// Translation validation per generated program, executed: the plan the real leader code produces
// (whole-query pushdown, or partition-side pre-aggregation + leader-side group/having/order/limit)
// runs against N partition databases holding an arbitrary key-respecting split of the points, and
// must return the rows of the local plan over the union.

import (
	"context"
	"fmt"
	"hash/fnv"
	"sort"
	"strings"
	"sync"
	"time"

	"github.com/getlantern/bytemap"
	"github.com/getlantern/zenodb"
	"github.com/getlantern/zenodb/core"
	"github.com/getlantern/zenodb/planner"

	"verif/internal/dbh"
	"verif/internal/fw"
	"verif/internal/gen"
	"verif/internal/ref"
)

func init() {
	fw.Register(&fw.Property{
		ID:    "C11",
		Level: "translation_validation",
		Rule: "one case = one generated table with a partition-key set (none / each subset of s,n,b) + generated points split over N in 1..6 partition databases by an arbitrary PRNG function of the partition-key values (not murmur), " +
			"a passthrough leader whose remote query handlers run the SQL they receive on each partition database in-process (flat and unflat paths), and a standalone database holding the union; " +
			"each generated program (fields, derived fields, WHERE incl. string literals containing SQL keywords, GROUP BY dims/expressions/period/stride, CROSSTAB, HAVING, ORDER, LIMIT, FROM- and IN-subqueries) is planned and executed on the leader and locally; " +
			"rows compared as multisets (ORDER BY: sequence of key tuples; unordered LIMIT: count and membership); for whole-query pushdowns the same (group key, period) must never arrive from two partitions; " +
			"non-trivial = N >= 2 and the program returned rows from >= 2 partitions; distinct by program text + split",
		Assumptions: []string{"real clocks on all databases, data 2-3h old, retention 48h; a pair is only compared when both plans report the same until", "the handler stands in for the RPC layer (covered by C20/C10)"},
		Cases: func(tier string) int {
			if tier == "quick" {
				return 24
			}
			return 360
		},
		Batch:            2,
		Workers:          3,
		PanicIsViolation: true,
		Run:              runC11,
	})
}

type c11Cluster struct {
	leader *dbh.DB
	parts  []*dbh.DB
	full   *dbh.DB
	mx     sync.Mutex
	// observations of the current query
	flatSeen   map[string]int // (ts|key) -> partition that delivered it first
	dupGroups  []string
	partsUsed  map[int]bool
	lastSQL    []string
	lastUnflat bool
	untils     []time.Time
}

func (cl *c11Cluster) close() {
	cl.leader.Close()
	cl.full.Close()
	for _, p := range cl.parts {
		p.Close()
	}
}

func (cl *c11Cluster) reset() {
	cl.mx.Lock()
	cl.flatSeen = map[string]int{}
	cl.dupGroups = nil
	cl.partsUsed = map[int]bool{}
	cl.lastSQL = nil
	cl.untils = nil
	cl.mx.Unlock()
}

// register installs a self-re-registering handler for partition p.
func (cl *c11Cluster) register(p int) {
	var handler planner.QueryClusterFN
	handler = func(ctx context.Context, sqlString string, isSubQuery bool, subQueryResults [][]interface{}, unflat bool, onFields core.OnFields, onRow core.OnRow, onFlatRow core.OnFlatRow) (interface{}, error) {
		cl.leader.DB.RegisterQueryHandler(p, handler)
		cl.mx.Lock()
		cl.lastSQL = append(cl.lastSQL, sqlString)
		cl.lastUnflat = unflat
		cl.mx.Unlock()
		src, err := cl.parts[p].DB.Query(sqlString, isSubQuery, subQueryResults, true)
		if err != nil {
			return nil, err
		}
		if !isSubQuery {
			cl.mx.Lock()
			cl.untils = append(cl.untils, src.GetUntil())
			cl.mx.Unlock()
		}
		if unflat {
			return core.UnflattenOptimized(src).Iterate(ctx, onFields, func(key bytemap.ByteMap, vals core.Vals) (bool, error) {
				cl.mx.Lock()
				cl.partsUsed[p] = true
				cl.mx.Unlock()
				return onRow(key, vals)
			})
		}
		return src.Iterate(ctx, onFields, func(row *core.FlatRow) (bool, error) {
			if !isSubQuery {
				id := fmt.Sprintf("%d|%x", row.TS, []byte(row.Key))
				cl.mx.Lock()
				cl.partsUsed[p] = true
				if q, ok := cl.flatSeen[id]; ok && q != p {
					cl.dupGroups = append(cl.dupGroups, fmt.Sprintf("ts=%d key=%v from partitions %d and %d", row.TS, row.Key.AsMap(), q, p))
				} else {
					cl.flatSeen[id] = p
				}
				cl.mx.Unlock()
			}
			return onFlatRow(row)
		})
	}
	// a registered handler serves exactly one query and the leader runs the IN-subqueries of a statement
	// concurrently: like a real follower (ClusterQueryConcurrency registrations per leader) the mock keeps
	// several registrations per partition outstanding, otherwise a subquery can find the partition
	// momentarily without handler and comes back empty (harness artefact seen as a 0-row cluster result)
	for i := 0; i < 8; i++ {
		cl.leader.DB.RegisterQueryHandler(p, handler)
	}
}

func c11Hash(seed int64, parts ...interface{}) uint32 {
	h := fnv.New32a()
	fmt.Fprintf(h, "%d", seed)
	for _, p := range parts {
		fmt.Fprintf(h, "|%T:%v", p, p)
	}
	return h.Sum32()
}

func runC11(c *fw.Ctx) {
	r := c.Rand
	t := gen.Table(r, "t", "inbound")
	// coarse resolutions: with real clocks every participant computes its own default until, a
	// resolution boundary passing between them would legitimately shift bucket anchors
	t.Res = []time.Duration{time.Minute, 2 * time.Minute, 5 * time.Minute}[r.Intn(3)]
	if len(t.GroupBy) > 0 {
		// the partition keys must be part of the table's key
		t.GroupBy = []string{"s", "n", "b", "m"}
	}
	var partitionBy []string
	switch r.Intn(5) {
	case 0: // none: all dims
	case 1:
		partitionBy = []string{"s"}
	case 2:
		partitionBy = []string{"n", "s"}
	case 3:
		partitionBy = []string{"b"}
	default:
		partitionBy = []string{"b", "n", "s"}
	}
	N := 1 + r.Intn(6)
	specs := []ref.TableSpec{t}
	base := time.Now().Add(-4 * time.Hour).Truncate(time.Hour)
	span := t.Res * time.Duration(3+r.Intn(10))
	retention := 48 * time.Hour
	mkDefs := func() []dbh.TableDef {
		return []dbh.TableDef{{Name: "t", SQL: t.SQL(), Retention: retention, Stream: "inbound", PartitionBy: append([]string(nil), partitionBy...)}}
	}
	n := 60 + r.Intn(200)
	points := gen.Points(r, n, span, t.Res)
	shift := base.Sub(gen.Base)
	for i := range points {
		points[i].TS = points[i].TS.Add(shift)
	}
	cl := &c11Cluster{}
	var err error
	if cl.full, err = dbh.Open(c.Dir+"/full", mkDefs(), dbh.Opts{}); err != nil {
		c.Violate("open", "%v", err)
		return
	}
	if cl.leader, err = dbh.Open(c.Dir+"/leader", mkDefs(), dbh.Opts{Extra: func(o *zenodb.DBOpts) {
		o.Passthrough = true
		o.NumPartitions = N
		o.ID = 1
		o.ClusterQueryTimeout = 60 * time.Second
	}}); err != nil {
		c.Violate("open", "%v", err)
		return
	}
	for p := 0; p < N; p++ {
		pdb, err := dbh.Open(fmt.Sprintf("%s/part%d", c.Dir, p), mkDefs(), dbh.Opts{})
		if err != nil {
			c.Violate("open", "%v", err)
			return
		}
		cl.parts = append(cl.parts, pdb)
	}
	defer cl.close()
	splitSeed := r.Int63()
	perPart := make([]int, N)
	for i := range points {
		p := &points[i]
		var keyVals []interface{}
		if len(partitionBy) == 0 {
			var names []string
			for k := range p.Dims {
				names = append(names, k)
			}
			sort.Strings(names)
			for _, k := range names {
				keyVals = append(keyVals, k, p.Dims[k])
			}
		} else {
			for _, k := range partitionBy {
				keyVals = append(keyVals, p.Dims[k])
			}
		}
		part := int(c11Hash(splitSeed, keyVals...) % uint32(N))
		perPart[part]++
		insertPoint(cl.full, "inbound", p)
		insertPoint(cl.parts[part], "inbound", p)
	}
	if !cl.full.WaitCaughtUp(quiesceTimeout) {
		c.Inconclusive("no quiescence")
		return
	}
	for _, p := range cl.parts {
		if !p.WaitCaughtUp(quiesceTimeout) {
			c.Inconclusive("no quiescence")
			return
		}
		if r.Intn(2) == 0 {
			p.FlushAll()
		}
	}
	for p := 0; p < N; p++ {
		cl.register(p)
	}
	d := &dataset{db: cl.full, spec: &specs[0], specs: specs, points: points, retention: retention}
	d.cells, _ = specs[0].Aggregate(points)
	d.now = time.Now()
	d.until = ref.CeilTime(d.now, t.Res)
	d.asOf = ref.CeilTime(d.now.Add(-retention), t.Res)
	c.HashAdd(t.SQL(), partitionBy, N, splitSeed)

	if dbgHook != nil {
		dbgHook(cl)
		return
	}
	nq := c.Pick(40, 120)
	multi := 0
	var samples []string
	for qi := 0; qi < nq && !c.Violated(); qi++ {
		g := c11Program(c, d)
		sql := g.SQL
		var local, dist *dbh.Result
		clockOK := false
		for attempt := 0; attempt < 3; attempt++ {
			cl.reset()
			local = cl.full.Query(sql, true)
			dist = cl.leader.Query(sql, true)
			if local.Failed() || dist.Failed() {
				break
			}
			same := local.Until.Equal(dist.Until)
			cl.mx.Lock()
			for _, u := range cl.untils {
				// only default (clock-derived) untils can differ; explicit ones are equal by construction
				if !u.Equal(cl.untils[0]) || !u.Equal(local.Until) {
					// (a partition that derived its window after a period boundary the local plan had not yet
					// passed answers for a different window although leader and local plan agree)
					same = false
				}
			}
			cl.mx.Unlock()
			if same {
				clockOK = true
				break
			}
		}
		c.Obs("programs", 1)
		c.Obs("disagreements_checked", 1)
		if len(samples) < 5 {
			samples = append(samples, sql)
		}
		cl.mx.Lock()
		dups := append([]string(nil), cl.dupGroups...)
		used := len(cl.partsUsed)
		sent := append([]string(nil), cl.lastSQL...)
		unflat := cl.lastUnflat
		cl.mx.Unlock()
		if unflat {
			c.Obs("non_pushdown_plans", 1)
		} else {
			c.Obs("pushdown_plans", 1)
		}
		data := map[string]interface{}{"table": t.SQL(), "partition_by": partitionBy, "partitions": N, "points_per_partition": perPart, "sql": sql, "sql_sent_to_partitions": sent, "cluster_plan": dist.Plan, "local_plan": local.Plan}
		if local.Failed() != dist.Failed() {
			sig := "c11-plan-error-differs"
			if c11TextualHazard(sql) && dist.Failed() {
				sig = "c11-textual-rewrite-breaks-plan"
			}
			c.ViolateData(sig, data, "%q: local plan %q vs cluster plan %q", sql, local.ErrString(), dist.ErrString())
			continue
		}
		if local.Failed() {
			continue
		}
		if !clockOK {
			c.Obs("pairs_skipped_clock_boundary", 1)
			continue
		}
		if len(dups) > 0 && !unflat {
			sig := "c11-pushdown-splits-group"
			if i := strings.Index(sql, " GROUP BY "); i >= 0 && strings.Contains(sql[i:], "LEN(") {
				sig += ":len"
			} else if len(partitionBy) == 0 && len(t.GroupBy) > 0 {
				sig += ":table-key-drops-dims-without-partitionby"
			}
			c.ViolateData(sig, data, "%q was pushed down whole although output groups are spread over partitions: %s", sql, dups[0])
			continue
		}
		if used >= 2 && N >= 2 {
			multi++
		}
		if g.HasLimit {
			if len(local.Rows) != len(dist.Rows) {
				lsig := "c11-limit-count"
				if strings.Contains(sql, " GROUP BY _") && strings.Contains(sql, "CROSSTAB") {
					lsig = "c11-rows-differ:underscore-with-crosstab"
				} else if strings.Contains(sql, "SHIFT(") && unflat {
					lsig = "c11-rows-differ:shift-in-non-pushdown"
				}
				c.ViolateData(lsig, data, "%q: local plan returns %d rows, cluster plan %d", sql, len(local.Rows), len(dist.Rows))
				continue
			}
			if g.HasOrder {
				// ties may be cut differently: compare the key tuples position by position
				keys := c11OrderKeys(sql)
				for i := range local.Rows {
					a := tupleOf(local, &local.Rows[i], keys)
					b := tupleOf(dist, &dist.Rows[i], keys)
					if a != b {
						osig := "c11-order-differs"
						if strings.Contains(sql, " GROUP BY _") && strings.Contains(sql, "CROSSTAB") {
							// same known finding as for unordered results: the leader's "_" picks up the crosstab key
							osig = "c11-rows-differ:underscore-with-crosstab"
						}
						c.ViolateData(osig, data, "%q: row %d has key tuple (%s) locally and (%s) in the cluster", sql, i, a, b)
						break
					}
				}
			}
			continue
		}
		if diff := dbh.Diff(local, dist, 1e-9); diff != "" {
			sig := "c11-rows-differ"
			if c11TextualHazard(sql) {
				sig = "c11-textual-rewrite-rows-differ"
			}
			if strings.Contains(sql, " GROUP BY _") && strings.Contains(sql, "CROSSTAB") {
				sig = "c11-rows-differ:underscore-with-crosstab"
			} else if strings.Contains(sql, "SHIFT(") && unflat {
				sig = "c11-rows-differ:shift-in-non-pushdown"
			}
			c.ViolateData(sig, data, "%q: the cluster plan over %d partitions returns different rows than the local plan over their union: %s", sql, N, diff)
			continue
		}
		if g.HasOrder && !g.HasLimit {
			// order must agree on the key tuples
			keys := c11OrderKeys(sql)
			for i := range local.Rows {
				a := tupleOf(local, &local.Rows[i], keys)
				b := tupleOf(dist, &dist.Rows[i], keys)
				if a != b {
					c.ViolateData("c11-order-differs", data, "%q: row %d has key tuple (%s) locally and (%s) in the cluster", sql, i, a, b)
					break
				}
			}
		}
	}
	c.Nontrivial(multi > 0)
	c.Sample(map[string]interface{}{"table": t.SQL(), "partition_by": partitionBy, "partitions": N, "points_per_partition": perPart, "programs": samples})
}

// c11Program generates one program; beyond genQuery it adds string literals containing SQL keywords,
// GROUP BY expressions and FROM-subqueries.
func c11Program(c *fw.Ctx, d *dataset) genQ {
	r := c.Rand
	g := genQuery(r, d, qOpts{noShift: r.Intn(3) != 0})
	switch r.Intn(11) {
	case 8:
		// two levels of FROM nesting; the outermost query may drop a key the inner levels group by
		t := d.spec
		f := t.Fields[0].Name
		lvl1 := []string{"s", "n", "b"}
		r.Shuffle(3, func(i, j int) { lvl1[i], lvl1[j] = lvl1[j], lvl1[i] })
		lvl2 := lvl1[:1+r.Intn(3)]
		lvl3 := lvl2[:1+r.Intn(len(lvl2))]
		if r.Intn(2) == 0 && len(lvl2) > 1 {
			lvl3 = lvl2[1:]
		}
		g = genQ{SQL: fmt.Sprintf("SELECT SUM(x1) AS x2 FROM (SELECT SUM(%s) AS x1 FROM (SELECT %s FROM t GROUP BY %s) GROUP BY %s) GROUP BY %s",
			f, f, strings.Join(lvl1, ", "), strings.Join(lvl2, ", "), strings.Join(lvl3, ", ")), Grouped: true}
		if r.Intn(2) == 0 {
			// a level that does not group at all below a level that groups by a single dimension
			dim := lvl1[0]
			switch r.Intn(3) {
			case 0:
				g.SQL = fmt.Sprintf("SELECT _points, %s FROM (SELECT _points, %s FROM (SELECT * FROM t)) GROUP BY %s", f, f, dim)
			case 1:
				g.SQL = fmt.Sprintf("SELECT _points, %s FROM (SELECT * FROM (SELECT _points, %s FROM t GROUP BY s, n, b)) GROUP BY %s", f, f, dim)
			default:
				g.SQL = fmt.Sprintf("SELECT _points FROM (SELECT * FROM (SELECT * FROM (SELECT * FROM t))) GROUP BY %s", dim)
			}
		}
	case 9, 10:
		// two IN-subqueries with different results
		t := d.spec
		sub1 := "SELECT s FROM t"
		if r.Intn(2) == 0 {
			sub1 += " WHERE " + gen.Pred(r, 1).SQL()
		}
		sub1 += " GROUP BY s HAVING _points > " + fmt.Sprint(r.Intn(5))
		sub2 := "SELECT n FROM t GROUP BY n"
		if r.Intn(2) == 0 {
			sub2 = "SELECT n FROM t WHERE " + gen.Pred(r, 1).SQL() + " GROUP BY n"
		}
		conj := []string{"AND", "OR"}[r.Intn(2)]
		g = genQ{SQL: fmt.Sprintf("SELECT _points, %s FROM t WHERE s IN (%s) %s n IN (%s) GROUP BY s, n", t.Fields[0].Name, sub1, conj, sub2), Grouped: true}
	case 0:
		// string literal containing keywords
		lit := []string{"the group by clause", "order by me", "x having y", "limit 5", "a group by b having c order by d limit 1"}[r.Intn(5)]
		if !strings.Contains(g.SQL, " WHERE ") {
			i := strings.Index(g.SQL, " GROUP BY ")
			j := strings.Index(g.SQL, " HAVING ")
			k := strings.Index(g.SQL, " ORDER BY ")
			l := strings.Index(g.SQL, " LIMIT ")
			pos := len(g.SQL)
			for _, x := range []int{i, j, k, l} {
				if x >= 0 && x < pos {
					pos = x
				}
			}
			g.SQL = g.SQL[:pos] + fmt.Sprintf(" WHERE s <> '%s'", lit) + g.SQL[pos:]
		}
	case 3:
		// FROM-subquery that limits (and possibly orders) its rows; the outer level neither groups nor limits.
		// Which rows an inner LIMIT keeps among ties is free, so only the number of rows is compared.
		t := d.spec
		f := t.Fields[0].Name
		k := 1 + r.Intn(6)
		inner := fmt.Sprintf("SELECT * FROM t GROUP BY s, n, b, period(%v)", t.Res)
		if r.Intn(2) == 0 {
			inner = "SELECT * FROM t GROUP BY s, n, b"
		}
		if r.Intn(3) != 0 {
			inner += " ORDER BY " + f + []string{"", " DESC"}[r.Intn(2)]
		}
		inner += fmt.Sprintf(" LIMIT %d", k)
		g = genQ{SQL: fmt.Sprintf("SELECT _points, %s FROM (%s)", f, inner), HasLimit: true}
	case 1:
		// FROM subquery
		t := d.spec
		inner := fmt.Sprintf("SELECT %s FROM t GROUP BY s, n, b", t.Fields[r.Intn(len(t.Fields))].Name)
		outer := []string{"s", "n", "b"}[r.Intn(3)]
		g = genQ{SQL: fmt.Sprintf("SELECT SUM(%s) AS x FROM (%s) GROUP BY %s", t.Fields[0].Name, strings.Replace(inner, t.Fields[r.Intn(len(t.Fields))].Name, t.Fields[0].Name, 1), outer), Grouped: true}
		g.SQL = fmt.Sprintf("SELECT SUM(%s) AS x FROM (SELECT %s FROM t GROUP BY s, n, b) GROUP BY %s", t.Fields[0].Name, t.Fields[0].Name, outer)
	case 2:
		// GROUP BY expression
		t := d.spec
		g = genQ{SQL: fmt.Sprintf("SELECT _points, %s FROM t GROUP BY CONCAT('-', s, n) AS sn", t.Fields[0].Name), Grouped: true}
		switch r.Intn(4) {
		case 0:
			g.SQL = fmt.Sprintf("SELECT _points, %s FROM t GROUP BY LEN(s) AS ls, b", t.Fields[0].Name)
		case 1:
			// a many-to-one function of a (possible) partition key
			g.SQL = fmt.Sprintf("SELECT _points, %s FROM t GROUP BY SUBSTR(s, 0, 1) AS s1, n", t.Fields[0].Name)
		case 2:
			g.SQL = fmt.Sprintf("SELECT _points, %s FROM t GROUP BY SUBSTR(s, 0, 1) AS s1", t.Fields[0].Name)
		}
	}
	return g
}

// c11TextualHazard: the lower-cased statement contains one of the clause keywords the non-pushdown
// rewrite searches for by text at a position before the statement's own clause (inside a string
// literal or an IN-subquery).
func c11TextualHazard(sql string) bool {
	l := strings.ToLower(sql)
	depth := 0
	inStr := false
	for i := 0; i < len(l); i++ {
		switch {
		case l[i] == '\'':
			inStr = !inStr
		case inStr:
		case l[i] == '(':
			depth++
		case l[i] == ')':
			depth--
		}
		if inStr || depth > 0 {
			for _, kw := range []string{"group by ", "having ", "order by ", "limit "} {
				if strings.HasPrefix(l[i:], kw) {
					return true
				}
			}
		}
	}
	return false
}

func c11OrderKeys(sql string) []orderKey {
	i := strings.Index(sql, " ORDER BY ")
	if i < 0 {
		return nil
	}
	s := sql[i+len(" ORDER BY "):]
	if j := strings.Index(s, " LIMIT "); j >= 0 {
		s = s[:j]
	}
	var keys []orderKey
	for _, part := range strings.Split(s, ",") {
		f := strings.Fields(strings.TrimSpace(part))
		if len(f) == 0 {
			continue
		}
		keys = append(keys, orderKey{name: f[0], desc: len(f) > 1 && strings.EqualFold(f[1], "DESC")})
	}
	return keys
}

var dbgHook func(cl *c11Cluster)
