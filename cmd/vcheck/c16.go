package main

// C16 — malformed client input yields an error, never a crash or a stalled pipeline.
// (a) SQL: grammar-aware generation + mutation; sql.Parse / sql.TableFor / planner via DB.Query must
//     return an error or a plan, never panic. (b) inserts: hostile payloads interleaved with valid
//     unique-id points; every valid id must afterwards be present exactly once.

import (
	"fmt"
	"math"
	"math/rand"
	"runtime/debug"
	"strings"
	"time"

	"github.com/getlantern/bytemap"
	"github.com/getlantern/zenodb"
	"github.com/getlantern/zenodb/sql"

	"verif/internal/cluster"
	"verif/internal/dbh"
	"verif/internal/fw"
	"verif/internal/gen"
	"verif/internal/ref"
)

func init() {
	fw.Register(&fw.Property{
		ID:    "C16",
		Level: "exploration",
		Rule: "even cases: a batch of SQL strings = valid generated queries put through mutators (token delete/duplicate/swap, keyword substitution, other statement kinds DELETE/INSERT/UPDATE/UNION/SHOW/SET, arity and argument-type changes, " +
			"unknown tables/fields/functions, truncation, byte noise), each passed to sql.Parse, sql.TableFor and DB.Query (parse+plan with a real table provider, on a standalone database and on the passthrough leader of a cluster) under recover(); any panic and any call that does not return is a violation. " +
			"odd cases: hostile insert payloads (nil/nested/empty-array/NaN/Inf/huge-string/empty-key/odd numeric types via DB.Insert, random/truncated/bit-flipped byte maps via DB.InsertRaw) interleaved with valid unique-id points " +
			"on tables with and without WHEREs using dimension functions; afterwards every valid id must be present exactly once (a stalled ingest goroutine shows as ids that never arrive); " +
			"every second odd case throws the same payloads at the leader of a real in-process cluster (2-3 partitions): barrier points must still arrive and every valid id must sit exactly once on the follower of its partition (a wedged follow pipeline shows as ids that are never replicated). " +
			"non-trivial = the parser accepted >=1 mutated string / >=1 hostile payload reached a table; distinct by batch hash",
		Assumptions: []string{"executing a plan is not judged here", "a payload may be rejected or skipped; only crashes, hangs and loss of later valid points count"},
		Cases: func(tier string) int {
			if tier == "quick" {
				return 32
			}
			return 480
		},
		Batch:            4,
		Workers:          8,
		PanicIsViolation: true,
		BenignCrash:      cluster.StartupRace,
		BatchTimeout:     15 * time.Minute,
		Env:              []string{"VERIF_TIMER_DIV=10"},
		Run:              runC16,
	})
}

func runC16(c *fw.Ctx) {
	switch {
	case c.Case%2 == 0:
		c16SQL(c)
	case c.Case%4 == 1:
		c16Inserts(c)
	default:
		c16Replicated(c)
	}
}

// ------------------------------------------------------------------------------------------
// (a) SQL

var c16Statements = []string{
	"DELETE FROM t WHERE s = 'a'",
	"INSERT INTO t (a, b) VALUES (1, 2)",
	"UPDATE t SET a = 1 WHERE b = 2",
	"SELECT a FROM t UNION SELECT a FROM t",
	"SHOW TABLES",
	"SET a = 1",
	"SELECT * FROM (SELECT a FROM t UNION SELECT a FROM t)",
	"SELECT * FROM t WHERE s IN (SELECT s FROM t UNION SELECT s FROM t)",
	"SELECT * FROM t WHERE s IN (SELECT * FROM t)",
	"SELECT * FROM t WHERE s IN (SELECT _ FROM t)",
	"SELECT * FROM t WHERE s IN (SELECT s, n FROM t)",
	"SELECT * FROM t GROUP BY LUA('x', 'k', 'a') AS l",
	"SELECT * FROM t GROUP BY LUA('x', ARRAY('k'), 'a') AS l",
	"SELECT * FROM t, t",
	"SELECT * FROM t AS a JOIN t AS b ON a.s = b.s",
	"SELECT",
	"",
	"SELECT * FROM",
	"SELECT * FROM t GROUP BY period()",
	"SELECT * FROM t GROUP BY period('abc')",
	"SELECT * FROM t GROUP BY stride(1s, 2s)",
	"SELECT * FROM t GROUP BY CROSSTAB()",
	"SELECT * FROM t GROUP BY CROSSTAB(s), CROSSTAB(n)",
	"SELECT IF(s = 'a') AS x FROM t",
	"SELECT IF(*, x) AS x FROM t",
	"SELECT BOUNDED(x, 'a', 'b') AS x FROM t",
	"SELECT BOUNDED(*, 1, 2) AS x FROM t",
	"SELECT PERCENTILE(x, 99) AS p FROM t",
	"SELECT PERCENTILE(x, 99, 0, 100) AS p FROM t",
	"SELECT PERCENTILE(x, 99, 0, 100, 'z') AS p FROM t",
	"SELECT PERCENTILE(*, 99, 0, 100, 1) AS p FROM t",
	"SELECT SHIFT(x) AS p FROM t",
	"SELECT SHIFT(x, 'zz') AS p FROM t",
	"SELECT CROSSHIFT(x, '0s', '1s') FROM t",
	"SELECT CROSSHIFT(x, '1s') FROM t",
	"SELECT CROSSHIFT(*, '1s', '1s') FROM t",
	"SELECT SUM(*) AS p FROM t",
	"SELECT SUM(x, y) AS p FROM t",
	"SELECT WAVG(x) AS p FROM t",
	"SELECT WAVG(*, x) AS p FROM t",
	"SELECT NOSUCHFN(x) AS p FROM t",
	"SELECT NOSUCHFN(x, y) AS p FROM t",
	"SELECT x + 'a' AS p FROM t",
	"SELECT SUM(x) FROM t",
	"SELECT * FROM t ASOF 'tomorrow'",
	"SELECT * FROM t ASOF '-1x' UNTIL 'never'",
	"SELECT * FROM t LIMIT 'a'",
	"SELECT * FROM t LIMIT 1, 'b'",
	"SELECT * FROM t HAVING",
	"SELECT * FROM t HAVING s",
	"SELECT * FROM t HAVING SUM(x) > 'a'",
	"SELECT * FROM t HAVING NOSUCH(x) > 1",
	"SELECT * FROM t WHERE s LIKE",
	"SELECT * FROM t WHERE s IN ()",
	"SELECT * FROM t WHERE NOSUCH(s) = 1",
	"SELECT * FROM t WHERE SPLIT(s) = 1",
	"SELECT * FROM t WHERE SUBSTR(s, 1) = 'a'",
	"SELECT * FROM t WHERE ANY() = 1",
	"SELECT * FROM t WHERE s = (SELECT s FROM t)",
	"SELECT * FROM t WHERE EXISTS (SELECT s FROM t)",
	"SELECT * FROM t WHERE s BETWEEN 'a' AND 'b'",
	"SELECT * FROM t WHERE CASE WHEN s = 'a' THEN 1 ELSE 0 END = 1",
	"SELECT * FROM t GROUP BY s + n",
	"SELECT * FROM t GROUP BY CONCAT() AS c",
	// pushdown (P-prefixed) forms of the dimension functions, with parameters their constructors choke on
	"SELECT * FROM t WHERE PCONCAT() = 'x'",
	"SELECT * FROM t GROUP BY PCONCAT() AS c",
	"SELECT * FROM t GROUP BY PLUA('s', 1, 2) AS l",
	"SELECT * FROM t WHERE PLUA('x', 'k', 'a') = 1",
	"SELECT * FROM t WHERE PSPLIT(s) = 1",
	"SELECT * FROM t WHERE PSUBSTR(s, 'a', 'b') = 'a'",
	"SELECT * FROM t WHERE PANY() = 1",
	"SELECT * FROM t WHERE PLEN() = 1",
	"SELECT * FROM t WHERE PNOSUCH(s) = 1",
	"SELECT * FROM t ORDER BY",
	"SELECT * FROM nosuchtable",
	"SELECT nosuchfield FROM t",
	"SELECT * FROM t WHERE s IN (SELECT s FROM nosuchtable GROUP BY s)",
	"SELECT * FROM (SELECT * FROM nosuchtable)",
	"SELECT * FROM (SELECT * FROM (SELECT * FROM t))",
	"SELECT DISTINCT s FROM t",
	"SELECT * FROM t FOR UPDATE",
	"SELECT * FROM t GROUP BY *, *",
	"SELECT *, * FROM t",
	"SELECT _ FROM t",
	"SELECT _points AS _having FROM t",
}

var c16Keywords = []string{"SELECT", "FROM", "WHERE", "GROUP", "BY", "HAVING", "ORDER", "LIMIT", "ASOF", "UNTIL", "AS", "AND", "OR", "NOT", "IN", "LIKE", "IS", "NULL", "UNION", "DELETE", "INSERT", "UPDATE", "SET", "SHOW", "DESC", "ASC",
	"SUM", "AVG", "MIN", "MAX", "COUNT", "WAVG", "IF", "BOUNDED", "PERCENTILE", "SHIFT", "CROSSHIFT", "CROSSTAB", "CROSSTABT", "period", "stride", "LUA", "ARRAY", "CONCAT", "LEN", "SPLIT", "SUBSTR", "ANY", "RAND", "HGET", "PLUA", "PCONCAT", "PLEN", "PSPLIT", "PSUBSTR", "PANY", "PRAND", "PHGET", "P",
	"(", ")", ",", "*", "'", "''", "`", "--", "/*", ";", "=", "<>", "<", ">", "+", "-", "/", "%", "_", "_points", "_time", "_having", "0", "-1", "1e309", "'1h'", "'-1h'", "t", "nosuch"}

func c16Tokens(s string) []string {
	var out []string
	cur := ""
	flush := func() {
		if cur != "" {
			out = append(out, cur)
			cur = ""
		}
	}
	for _, ch := range s {
		switch {
		case ch == ' ':
			flush()
		case strings.ContainsRune("(),*=<>+-/", ch):
			flush()
			out = append(out, string(ch))
		default:
			cur += string(ch)
		}
	}
	flush()
	return out
}

// c16LexGarbage: strings that stress the tokenizer rather than the grammar
var c16LexGarbage = []string{"`x(`", "`a)`", "`b[`", "`c\\\\`", "AS `x(`", "AS `y*+`", "`.*`", "`(?`", "``", "`", "` `", "```", "`a``b`", "''", "'", "'\\'", "\"", "\"\"", "\\", "/*", "*/", "/* x", "--", "-- x\n", "#", ";", "\x00", "0x", "0xZZ", "1e", "1e+", ".5.", "..", "::", "@@", "@", "?", ":a", "!", "!=", "<=>", "<<", "|", "||", "&&", "~", "^", "%", "{", "}", "[", "]", "\t", "\n", "\r\n", "\u00a0", "\xff\xfe", "９", "ａ", "Ω"}

func c16Mutate(r *rand.Rand, s string) string {
	toks := c16Tokens(s)
	if len(toks) == 0 {
		return s
	}
	n := 1 + r.Intn(3)
	for k := 0; k < n; k++ {
		i := r.Intn(len(toks))
		switch r.Intn(11) {
		case 9: // quoting / comment / lexer-level garbage as a token of its own or glued to a token
			g := c16LexGarbage[r.Intn(len(c16LexGarbage))]
			switch r.Intn(3) {
			case 0:
				toks[i] = g
			case 1:
				toks[i] = toks[i] + g
			default:
				toks = append(toks[:i], append([]string{g}, toks[i:]...)...)
			}
		case 10: // token wrapped in quotes of some kind (possibly unbalanced)
			q := []string{"`", "'", "\"", "``", "("}[r.Intn(5)]
			q2 := []string{"`", "'", "\"", "", ")"}[r.Intn(5)]
			toks[i] = q + toks[i] + q2
		case 0: // delete
			toks = append(toks[:i], toks[i+1:]...)
		case 1: // duplicate
			toks = append(toks[:i+1], toks[i:]...)
		case 2: // swap
			j := r.Intn(len(toks))
			toks[i], toks[j] = toks[j], toks[i]
		case 3, 4: // keyword substitution
			toks[i] = c16Keywords[r.Intn(len(c16Keywords))]
		case 5: // insertion
			toks = append(toks[:i], append([]string{c16Keywords[r.Intn(len(c16Keywords))]}, toks[i:]...)...)
		case 6: // truncation
			toks = toks[:i+1]
		case 7: // byte noise
			b := []byte(toks[i])
			if len(b) > 0 {
				b[r.Intn(len(b))] = byte(r.Intn(256))
			}
			toks[i] = string(b)
		default: // replace whole statement tail with another statement kind
			toks = append(toks[:i], c16Tokens(c16Statements[r.Intn(len(c16Statements))])...)
		}
		if len(toks) == 0 {
			break
		}
	}
	return strings.Join(toks, " ")
}

func c16SQL(c *fw.Ctx) {
	r := c.Rand
	// a real DB so that planning reaches field resolution
	t := gen.Table(r, "t", "inbound")
	t.GroupBy = []string{"s", "n", "b"}
	specs := []ref.TableSpec{t}
	defs := defsFor(specs, nil, func(*ref.TableSpec) time.Duration { return time.Hour })
	db, err := dbh.Open(c.Dir, defs, dbh.Opts{VirtualTime: true})
	if err != nil {
		c.Violate("open", "cannot open database: %v", err)
		return
	}
	defer db.Close()
	// the same schema on a passthrough leader of a 3-partition cluster (no followers needed: only parsing and
	// planning are exercised), so that the cluster planner sees every string as well
	leader, err := dbh.Open(c.Dir+"-leader", defs, dbh.Opts{VirtualTime: true, Extra: func(o *zenodb.DBOpts) {
		o.Passthrough = true
		o.NumPartitions = 3
		o.ID = 7
	}})
	if err != nil {
		c.Violate("open", "cannot open leader database: %v", err)
		return
	}
	defer leader.Close()
	d := &dataset{db: db, spec: &specs[0], specs: specs, retention: time.Hour}
	d.now = gen.Base.Add(time.Minute)
	d.until = ref.CeilTime(d.now, t.Res)
	d.asOf = d.until.Add(-time.Hour)
	d.cells = map[string]*ref.Cell{}
	n := c.Pick(2500, 20000)
	accepted, panics := 0, 0
	seen := map[string]bool{}
	hung := false
	try := func(what, s string, f func()) {
		if hung {
			return
		}
		done := make(chan struct{})
		go func() {
			defer close(done)
			defer func() {
				if p := recover(); p != nil {
					panics++
					stack := string(debug.Stack())
					sig := "c16-sql-panic:" + what + ":" + c16PanicSite(stack)
					if !seen[sig] {
						seen[sig] = true
						c.ViolateData(sig, map[string]interface{}{"sql": s, "stack": stack}, "%s(%q) panicked: %v", what, s, p)
					}
				}
			}()
			f()
		}()
		select {
		case <-done:
		case <-time.After(30 * time.Second):
			// parsing/planning a short string takes microseconds; 30s without returning is a hang
			// (the goroutine cannot be killed: the case stops here and the worker is recycled)
			hung = true
			c.ViolateData("c16-sql-hang:"+what, map[string]interface{}{"sql": s}, "%s(%q) did not return within 30s (parsing/planning normally takes microseconds)", what, s)
		}
	}
	var sample []string
	for i := 0; i < n; i++ {
		var s string
		switch {
		case i < len(c16Statements):
			s = c16Statements[i]
		case r.Intn(5) == 0:
			s = c16Mutate(r, c16Statements[r.Intn(len(c16Statements))])
		default:
			s = c16Mutate(r, genQuery(r, d, qOpts{}).SQL)
		}
		if len(sample) < 5 && i >= len(c16Statements) {
			sample = append(sample, s)
		}
		c.HashAdd(s)
		try("sql.Parse", s, func() {
			if _, err := sql.Parse(s); err == nil {
				accepted++
			}
		})
		try("sql.TableFor", s, func() { sql.TableFor(s) })
		try("DB.Query", s, func() { db.DB.Query(s, false, nil, true) })
		try("DB.Query(subquery)", s, func() { db.DB.Query(s, true, nil, false) })
		try("leader DB.Query", s, func() { leader.DB.Query(s, false, nil, true) })
		if hung {
			break
		}
	}
	c.Obs("sql_strings", int64(n))
	c.Obs("sql_accepted_by_parser", int64(accepted))
	c.Obs("sql_panics", int64(panics))
	c.Nontrivial(accepted > 0)
	c.Sample(map[string]interface{}{"kind": "sql", "strings": n, "accepted_by_parser": accepted, "examples": sample})
}

func c16PanicSite(stack string) string {
	// first zenodb / goexpr / sqlparser frame after the panic call
	lines := strings.Split(stack, "\n")
	after := false
	for _, l := range lines {
		if strings.HasPrefix(l, "panic(") {
			after = true
			continue
		}
		if after && (strings.HasPrefix(l, "github.com/getlantern/") || strings.HasPrefix(l, "github.com/xwb1989/")) {
			if i := strings.LastIndex(l, "("); i > 0 {
				return l[:i]
			}
			return l
		}
	}
	return "unknown"
}

// ------------------------------------------------------------------------------------------
// (b) insert payloads

func c16HostileVals(r *rand.Rand) map[string]interface{} {
	v := map[string]interface{}{}
	n := 1 + r.Intn(3)
	for i := 0; i < n; i++ {
		key := []string{"v", "w", "", "_points", "_point", "x y", "v"}[r.Intn(7)]
		switch r.Intn(16) {
		case 0:
			v[key] = nil
		case 1:
			v[key] = map[string]interface{}{"a": 1}
		case 2:
			v[key] = []interface{}{1, "a", nil}
		case 3:
			v[key] = []float64{}
		case 4:
			v[key] = []int{}
		case 5:
			v[key] = math.NaN()
		case 6:
			v[key] = math.Inf(1 - 2*r.Intn(2))
		case 7:
			v[key] = strings.Repeat("x", 60000+r.Intn(20000))
		case 8:
			v[key] = int64(r.Intn(100))
		case 9:
			v[key] = float32(1.5)
		case 10:
			v[key] = uint(7)
		case 11:
			v[key] = []float64{1, 2, 3}
		case 12:
			v[key] = []int{4, 5}
		case 13:
			v[key] = true
		case 14:
			v[key] = time.Now()
		default:
			v[key] = []byte{0, 1, 2}
		}
	}
	return v
}

func c16HostileDims(r *rand.Rand) map[string]interface{} {
	d := map[string]interface{}{}
	n := r.Intn(4)
	for i := 0; i < n; i++ {
		key := []string{"k", "x", "", "s", "_", "k"}[r.Intn(6)]
		switch r.Intn(14) {
		case 10:
			d[key] = r.Intn(100) // well-formed but of a type the tables' dimension functions do not expect
		case 11:
			d[key] = r.Intn(2) == 0
		case 12:
			d[key] = time.Unix(int64(r.Intn(1e9)), 0)
		case 13:
			d[key] = uint64(r.Intn(100))
		case 0:
			d[key] = nil
		case 1:
			d[key] = map[string]interface{}{"a": 1}
		case 2:
			d[key] = []interface{}{1}
		case 3:
			d[key] = math.NaN()
		case 4:
			d[key] = strings.Repeat("y", 66000)
		case 5:
			d[key] = []float64{}
		case 6:
			d[key] = int64(5)
		case 7:
			d[key] = ""
		case 8:
			d[key] = 3.5
		default:
			d[key] = fmt.Sprintf("hostile%d", r.Intn(5))
		}
	}
	return d
}

// c16Sink is what hostile payloads are thrown at: an embedded database or a cluster leader.
type c16Sink interface {
	Insert(stream string, ts time.Time, dims map[string]interface{}, vals map[string]interface{}) error
	InsertRaw(stream string, ts time.Time, dims bytemap.ByteMap, vals bytemap.ByteMap) error
}

// c16ValidKey is the key of valid point id. With selective keys (set by the replicated scenario whose tables all
// have a WHERE) odd ids get a key that only one table accepts.
var c16SelectiveKeys bool

func c16ValidKey(id int) string {
	if c16SelectiveKeys && id%2 == 1 {
		return fmt.Sprintf("zq%05d", id)
	}
	return fmt.Sprintf("id%05d", id)
}

// c16HostileStream sends nPay hostile payloads to db, each followed by 1-2 valid unique-id points
// (k = id%05d, x = "q", v = 1, one second apart from base). Returns the number of valid ids.
func c16HostileStream(c *fw.Ctx, db c16Sink, base time.Time, nPay int) (id int, hostileDone int, lastPayload string, ok bool) {
	r := c.Rand
	insertValid := func() bool {
		err := db.Insert("inbound", base.Add(time.Duration(id)*time.Second), map[string]interface{}{"k": c16ValidKey(id), "x": "q"}, map[string]interface{}{"v": 1.0})
		if err != nil {
			c.Violate("c16-valid-insert-rejected", "valid point id%05d was rejected after %d hostile payloads: %v", id, hostileDone, err)
			return false
		}
		id++
		return true
	}
	for p := 0; p < nPay; p++ {
		// hostile payload, logged before it is sent
		kind := r.Intn(5)
		ts := base.Add(time.Duration(r.Intn(3600)) * time.Second)
		switch kind {
		case 0, 1:
			dims, vals := c16HostileDims(r), c16HostileVals(r)
			lastPayload = fmt.Sprintf("Insert dims=%.200v vals=%.200v", dims, vals)
			func() {
				defer func() {
					if pv := recover(); pv != nil {
						c.ViolateData("c16-insert-panic:"+c16PanicSite(string(debug.Stack())), map[string]interface{}{"payload": lastPayload, "stack": string(debug.Stack())}, "DB.Insert panicked on %s: %v", lastPayload, pv)
					}
				}()
				db.Insert("inbound", ts, dims, vals)
			}()
		case 2:
			// raw random bytes
			d := make([]byte, r.Intn(40))
			v := make([]byte, r.Intn(40))
			r.Read(d)
			r.Read(v)
			lastPayload = fmt.Sprintf("InsertRaw random dims=%x vals=%x", d, v)
			c16Raw(c, db, ts, d, v, lastPayload)
		case 3:
			// truncated valid byte maps
			d := []byte(bytemap.New(map[string]interface{}{"k": "id-trunc", "x": "q", "n": 5}))
			v := []byte(bytemap.New(map[string]interface{}{"v": 2.0, "w": 3}))
			if len(d) > 1 {
				d = d[:r.Intn(len(d))]
			}
			if r.Intn(2) == 0 && len(v) > 1 {
				v = v[:r.Intn(len(v))]
			}
			lastPayload = fmt.Sprintf("InsertRaw truncated dims=%x vals=%x", d, v)
			c16Raw(c, db, ts, d, v, lastPayload)
		default:
			// bit flips
			d := []byte(bytemap.New(map[string]interface{}{"k": "id-flip", "x": "q", "b": true}))
			v := []byte(bytemap.New(map[string]interface{}{"v": 2.0, "arr": []float64{1, 2}}))
			for f := 0; f < 1+r.Intn(3); f++ {
				if r.Intn(2) == 0 {
					d[r.Intn(len(d))] ^= byte(1 << uint(r.Intn(8)))
				} else {
					v[r.Intn(len(v))] ^= byte(1 << uint(r.Intn(8)))
				}
			}
			lastPayload = fmt.Sprintf("InsertRaw bitflip dims=%x vals=%x", d, v)
			c16Raw(c, db, ts, d, v, lastPayload)
		}
		hostileDone++
		if c.Violated() {
			return id, hostileDone, lastPayload, false
		}
		for k := 0; k < 1+r.Intn(2); k++ {
			if !insertValid() {
				return id, hostileDone, lastPayload, false
			}
		}
	}
	return id, hostileDone, lastPayload, true
}

func c16Inserts(c *fw.Ctx) {
	defs := []dbh.TableDef{
		{Name: "t_all", SQL: "SELECT SUM(v) AS v FROM inbound GROUP BY k, period(1h)", Retention: 100 * time.Hour, Stream: "inbound"},
		{Name: "t_where", SQL: "SELECT SUM(v) AS v FROM inbound WHERE LEN(k) > 2 AND x <> 'zz' AND CONCAT('-', k, x) <> 'a-b' GROUP BY k, period(1h)", Retention: 100 * time.Hour, Stream: "inbound"},
		{Name: "t_star", SQL: "SELECT v, AVG(v) AS a, IF(x = 'q', SUM(v)) AS i FROM inbound WHERE SUBSTR(k, 0, 2) = 'id' GROUP BY *, period(1h)", Retention: 100 * time.Hour, Stream: "inbound", MaxFlush: 5 * time.Millisecond},
	}
	db, err := dbh.Open(c.Dir, defs, dbh.Opts{VirtualTime: true})
	if err != nil {
		c.Violate("open", "cannot open database: %v", err)
		return
	}
	defer db.Close()
	base := gen.Base
	id, hostileDone, lastPayload, ok := c16HostileStream(c, db.DB, base, c.Pick(150, 500))
	if !ok {
		return
	}
	c.Obs("hostile_payloads", int64(hostileDone))
	c.Obs("valid_points", int64(id))
	c.HashAdd(hostileDone, id, lastPayload)
	// bounded progress: quiescence, or a stall (no progress for 10s while behind)
	if !c16WaitOrStall(c, db) {
		return
	}
	for _, tbl := range []string{"t_all", "t_where", "t_star"} {
		res := db.Query("SELECT _points, v FROM "+tbl+" GROUP BY k", true)
		if res.Failed() {
			c.Violate("c16-query-error", "query on %s failed after the hostile payloads: %s", tbl, res.ErrString())
			return
		}
		got := map[string][]float64{}
		for i := range res.Rows {
			if k, ok := res.Rows[i].Dims["k"].(string); ok {
				got[k] = res.Rows[i].Vals
			}
		}
		for i := 0; i < id; i++ {
			k := fmt.Sprintf("id%05d", i)
			v := got[k]
			if v == nil || v[0] != 1 || v[1] != 1 {
				c.ViolateData("c16-valid-point-lost", map[string]interface{}{"table": tbl, "id": k, "row": v}, "table %s: valid point %s (inserted after hostile payloads) has row %v, expected _points=1 v=1 — %d of %d valid ids checked so far were fine", tbl, k, v, i, id)
				return
			}
		}
		c.Obs("valid_ids_verified", int64(id))
	}
	c.Nontrivial(hostileDone > 0)
	c.Sample(map[string]interface{}{"kind": "inserts", "hostile_payloads": hostileDone, "valid_points": id, "last_payload": lastPayload})
}

func c16Raw(c *fw.Ctx, db c16Sink, ts time.Time, d, v []byte, desc string) {
	defer func() {
		if pv := recover(); pv != nil {
			c.ViolateData("c16-insertraw-panic:"+c16PanicSite(string(debug.Stack())), map[string]interface{}{"payload": desc, "stack": string(debug.Stack())}, "DB.InsertRaw panicked on %s: %v", desc, pv)
		}
	}()
	db.InsertRaw("inbound", ts, bytemap.ByteMap(d), bytemap.ByteMap(v))
}

// c16Replicated: the same hostile payloads thrown at the leader of a real cluster (in-process server nodes, gRPC/TLS
// on loopback, 2-3 partitions, tables with WHEREs using dimension functions); afterwards barrier points per
// (partition, table) must arrive and every valid id must sit exactly once on the follower of its partition: a
// payload that kills or wedges the leader's follow pipeline or a follower's apply loop shows as ids that never arrive.
func c16Replicated(c *fw.Ctx) {
	r := c.Rand
	N := 2 + r.Intn(2)
	type tdef struct {
		name, sql string
		partBy    []string
		accepts   func(id int) bool
	}
	all := func(int) bool { return true }
	even := func(id int) bool { return id%2 == 0 }
	// every other replicated case: every table has a WHERE and half of the valid points are accepted by exactly
	// one table, so that the leader-side filter (an entry goes to a follower only if some table of it wants it)
	// alone decides whether the point is replicated
	c16SelectiveKeys = c.Case%8 == 7
	defer func() { c16SelectiveKeys = false }()
	if c16SelectiveKeys {
		c.Obs("replicated_cases_with_selective_tables", 1)
	}
	tables := []tdef{
		{"t_all", "SELECT SUM(v) AS v FROM inbound GROUP BY k, period(1h)", []string{"k"}, all},
		{"t_where", "SELECT SUM(v) AS v FROM inbound WHERE LEN(k) > 2 AND x <> 'zz' AND CONCAT('-', k, x) <> 'a-b' GROUP BY k, period(1h)", []string{"k"}, all},
		{"t_star", "SELECT v, AVG(v) AS a, IF(x = 'q', SUM(v)) AS i FROM inbound WHERE SUBSTR(k, 0, 2) = 'id' OR SUBSTR(k, 0, 2) = 'zz' GROUP BY *, period(1h)", nil, all},
		// a WHERE that hostile points fail quietly (no panic) while every valid point passes it: a result
		// cached or carried over from a hostile point would keep valid points from being replicated
		{"t_q", "SELECT SUM(v) AS v FROM inbound WHERE x = 'q' GROUP BY k, period(1h)", []string{"k"}, all},
		{"t_notz", "SELECT SUM(v) AS v FROM inbound WHERE n IS NULL AND x <> 'zz' GROUP BY k, period(1h)", []string{"k"}, all},
	}
	if c16SelectiveKeys {
		tables = []tdef{
			{"t_q", "SELECT SUM(v) AS v FROM inbound WHERE x = 'q' GROUP BY k, period(1h)", []string{"k"}, all},
			{"t_sub", "SELECT SUM(v) AS v FROM inbound WHERE SUBSTR(k, 0, 2) = 'id' OR SUBSTR(k, 0, 2) = 'zz' GROUP BY k, period(1h)", []string{"k"}, even},
			{"t_len", "SELECT SUM(v) AS v FROM inbound WHERE LEN(k) > 100 GROUP BY k, period(1h)", []string{"k"}, func(int) bool { return false }},
		}
	}
	var cdefs []cluster.TableDef
	for _, t := range tables {
		cdefs = append(cdefs, cluster.TableDef{Name: t.name, SQL: t.sql, Retention: 100 * time.Hour, MaxFlush: time.Duration(20+r.Intn(200)) * time.Millisecond, PartitionBy: t.partBy})
	}
	cl, err := cluster.New(cluster.Config{Dir: c.Dir + "/cluster", Tables: cdefs, NumLeaders: 1, NumPartitions: N, Redundancy: 1, QueryTimeout: 60 * time.Second})
	if err != nil {
		c.Inconclusive("cluster: %v", err)
		return
	}
	defer cl.StopAll()
	if err := cl.StartAll(); err != nil {
		c.Inconclusive("cluster start: %v", err)
		return
	}
	base := time.Now().Add(-3 * time.Hour).Truncate(time.Hour)
	leader := cl.Leaders[0].DB
	id, hostileDone, lastPayload, ok := c16HostileStream(c, leader, base, c.Pick(120, 400))
	if !ok {
		return
	}
	c.Obs("hostile_payloads_through_leader", int64(hostileDone))
	c.Obs("valid_points_through_leader", int64(id))
	c.HashAdd("replicated", N, hostileDone, id, lastPayload)
	// barrier: one point per (partition, table), inserted after everything else
	want := map[*cluster.Node]map[string]string{}
	covered := map[string]bool{}
	for j := 0; j < 400 && len(covered) < N*len(tables); j++ {
		dims := map[string]interface{}{"k": fmt.Sprintf("zzbar%04d", j), "x": "q"}
		useful := false
		for _, t := range tables {
			if !covered[fmt.Sprintf("%d/%s", cluster.PartitionFor(dims, t.partBy, N), t.name)] {
				useful = true
			}
		}
		if !useful {
			continue
		}
		if err := leader.Insert("inbound", base.Add(30*time.Minute), dims, map[string]interface{}{"v": 1.0}); err != nil {
			c.Violate("c16-valid-insert-rejected", "barrier point rejected after %d hostile payloads: %v", hostileDone, err)
			return
		}
		for _, t := range tables {
			p := cluster.PartitionFor(dims, t.partBy, N)
			if key := fmt.Sprintf("%d/%s", p, t.name); !covered[key] {
				covered[key] = true
				if t.name == "t_len" {
					continue // accepts nothing, not even barrier points
				}
				f := cl.Followers[p][0]
				if want[f] == nil {
					want[f] = map[string]string{}
				}
				want[f][t.name] = dims["k"].(string)
			}
		}
	}
	deadline := time.Now().Add(120 * time.Second)
	lateCheck := false
	for {
		missing := ""
		for f, per := range want {
			for tbl, k := range per {
				res := f.Query(ctxBackground(), "SELECT _points FROM "+tbl+" GROUP BY k", true)
				seen := false
				for i := range res.Rows {
					if res.Rows[i].Dims["k"] == k {
						seen = true
					}
				}
				if !seen {
					missing = fmt.Sprintf("follower of partition %d, table %s lacks the barrier point %s", f.Partition, tbl, k)
				}
			}
		}
		if missing == "" {
			break
		}
		if time.Now().After(deadline) && !lateCheck {
			// slow (loaded machine) or stalled: wait until the leader's follow pipeline has been completely idle
			// for 45s, then look once more
			if !c10Drained(45 * time.Second) {
				c.Inconclusive("no convergence within 120s and entries still in flight: %s", missing)
				return
			}
			lateCheck = true
			continue
		}
		if lateCheck {
			for _, f := range cl.AllFollowers() {
				rows := 0
				for _, t := range tables {
					rows += len(f.Query(ctxBackground(), "SELECT _points FROM "+t.name, true).Rows)
				}
				if rows == 0 {
					c.Inconclusive("follower of partition %d holds nothing in any table after the watchdog (not joined on this loaded machine?): %s", f.Partition, missing)
					return
				}
			}
			c.ViolateData("c16-replication-stalled", lastPayload, "after %d hostile payloads through the leader, with its follow pipeline idle for 45s, %s: valid points inserted afterwards are not replicated", hostileDone, missing)
			return
		}
		time.Sleep(100 * time.Millisecond)
	}
	for p := 0; p < N; p++ {
		f := cl.Followers[p][0]
		for _, t := range tables {
			res := f.Query(ctxBackground(), "SELECT _points, v FROM "+t.name+" GROUP BY k", true)
			if res.Failed() {
				c.Violate("c16-query-error", "query on follower %d table %s failed after the hostile payloads: %s", p, t.name, res.ErrString())
				return
			}
			got := map[string][]float64{}
			for i := range res.Rows {
				if k, ok := res.Rows[i].Dims["k"].(string); ok {
					got[k] = res.Rows[i].Vals
				}
			}
			for i := 0; i < id; i++ {
				k := c16ValidKey(i)
				dims := map[string]interface{}{"k": k, "x": "q"}
				mine := cluster.PartitionFor(dims, t.partBy, N) == p && t.accepts(i)
				if !t.accepts(i) && got[k] != nil {
					c.Violate("c16-valid-point-misrouted", "follower of partition %d, table %s holds %s, which its WHERE rejects", p, t.name, k)
					return
				}
				if !t.accepts(i) {
					continue
				}
				v := got[k]
				if mine && (v == nil || v[0] != 1 || v[1] != 1) {
					c.ViolateData("c16-valid-point-not-replicated", map[string]interface{}{"table": t.name, "id": k, "row": v}, "follower of partition %d, table %s: valid point %s (inserted through the leader after hostile payloads) has row %v, expected _points=1 v=1", p, t.name, k, v)
					return
				}
				if !mine && v != nil {
					c.Violate("c16-valid-point-misrouted", "follower of partition %d, table %s holds %s, which belongs to partition %d", p, t.name, k, cluster.PartitionFor(dims, t.partBy, N))
					return
				}
			}
			c.Obs("replicated_tables_verified", 1)
		}
	}
	c.Nontrivial(hostileDone > 0)
	c.Sample(map[string]interface{}{"kind": "replicated-inserts", "partitions": N, "hostile_payloads": hostileDone, "valid_points": id, "last_payload": lastPayload})
}

// c16WaitOrStall waits for quiescence; a table that stays behind with no progress at all for 10s is
// reported as a stalled pipeline (violation), slow progress until the watchdog as inconclusive.
func c16WaitOrStall(c *fw.Ctx, db *dbh.DB) bool {
	deadline := time.Now().Add(120 * time.Second)
	last := ""
	lastChange := time.Now()
	for {
		if db.WaitCaughtUp(500 * time.Millisecond) {
			return true
		}
		cur := ""
		for _, t := range db.Tables {
			p, s, a := db.DB.VerifTableProgress(t.Name)
			cur += fmt.Sprintf("%s:%v:%d:%d;", t.Name, p, s, a)
		}
		if cur != last {
			last = cur
			lastChange = time.Now()
		}
		if time.Since(lastChange) > 10*time.Second {
			c.ViolateData("c16-ingest-stalled", cur, "ingestion stopped making progress for 10s while behind the end of the stream (a table's ingest goroutine is dead or blocked): %s", cur)
			return false
		}
		if time.Now().After(deadline) {
			c.Inconclusive("ingestion still progressing but not caught up after 120s")
			return false
		}
	}
}
