package main

// C20 — data crossing the RPC boundary keeps its meaning.
// (a) round-trip law on rpc.Codec with behavioural comparison; (b) end-to-end differential:
// twin DBs, one fed and queried through rpc.Dial <-> rpcserver on loopback, one embedded.

import (
	"bytes"
	"context"
	"fmt"
	"math"
	"math/rand"
	"net"
	"reflect"
	"runtime"
	"strings"
	"sync"
	"time"

	"github.com/getlantern/bytemap"
	"github.com/getlantern/goexpr"
	"github.com/getlantern/wal"
	"github.com/getlantern/zenodb/common"
	"github.com/getlantern/zenodb/core"
	"github.com/getlantern/zenodb/encoding"
	"github.com/getlantern/zenodb/expr"
	"github.com/getlantern/zenodb/rpc"
	rpcserver "github.com/getlantern/zenodb/rpc/server"

	"verif/internal/dbh"
	"verif/internal/fw"
	"verif/internal/gen"
	"verif/internal/ref"
)

func init() {
	fw.Register(&fw.Property{
		ID:    "C20",
		Level: "exploration",
		Rule: "even cases (a): N generated messages marshalled and unmarshalled with rpc.Codec — field lists of random expression trees (whole aggregate grammar incl. IF conditions, BOUNDED, PERCENTILE, SHIFT, unary math), " +
			"dim/value maps, sequences, flat rows, Query/Insert/Point/RemoteQueryResult/Follow messages, bursts of 1-400 KB messages (also marshalled concurrently), empty-but-not-nil keys; bytes returned by Marshal must not be changed by later Marshal calls; the decoded object must have the same String()/EncodedWidth() and behave the same " +
			"(identical state bytes after the same random Updates, identical Get, identical Merge and SubMergers results against the original's states); " +
			"odd cases (b): twin databases, one fed (in 1-4 batches, some starting with a point the handler rejects) and queried through rpc client/server on loopback (snappy connection wrapper), one embedded, generated table/points/queries (incl. wide CROSSTAB rows and large keys) must give the same rows and metadata; " +
			"non-trivial = expression with >=2 nodes / query returning >=1 row; distinct by message hash",
		Assumptions: []string{"both twins use the virtual clock driven by the same points", "NaN == NaN when comparing evaluation results"},
		Cases: func(tier string) int {
			if tier == "quick" {
				return 12
			}
			return 480
		},
		Batch:            4,
		Workers:          8,
		PanicIsViolation: true,
		Run:              runC20,
	})
}

func runC20(c *fw.Ctx) {
	if c.Case%2 == 0 {
		c20RoundTrips(c)
	} else {
		c20EndToEnd(c)
	}
}

func c20Behaves(c *fw.Ctx, orig, dec expr.Expr, what string) bool {
	r := c.Rand
	if orig.String() != dec.String() {
		c.Violate("c20-expr-string", "%s: decoded expression prints %q, original %q", what, dec.String(), orig.String())
		return false
	}
	if orig.EncodedWidth() != dec.EncodedWidth() {
		c.Violate("c20-expr-width", "%s: decoded %v has EncodedWidth %d, original %d", what, dec, dec.EncodedWidth(), orig.EncodedWidth())
		return false
	}
	if orig.Shift() != dec.Shift() || orig.IsConstant() != dec.IsConstant() {
		c.Violate("c20-expr-attrs", "%s: decoded %v has Shift %v/IsConstant %v, original %v/%v", what, dec, dec.Shift(), dec.IsConstant(), orig.Shift(), orig.IsConstant())
		return false
	}
	if (orig.Validate() == nil) != (dec.Validate() == nil) {
		c.Violate("c20-expr-validate", "%s: Validate differs after decoding %v", what, orig)
		return false
	}
	ups := c05Updates(r, 1+r.Intn(6), false)
	k := r.Intn(len(ups) + 1)
	so1, so2 := c05Fold(orig, ups[:k]), c05Fold(orig, ups[k:])
	sd1, sd2 := c05Fold(dec, ups[:k]), c05Fold(dec, ups[k:])
	if !bytes.Equal(so1, sd1) || !bytes.Equal(so2, sd2) {
		c.ViolateData("c20-expr-update", map[string]interface{}{"expr": orig.String(), "updates": c05Dump(ups)}, "%s: decoded %v accumulates the same updates into different state bytes than the original", what, orig)
		return false
	}
	eq := func(a, b []byte) bool {
		va, sa, _ := orig.Get(a)
		vb, sb, _ := dec.Get(b)
		return sa == sb && c05FloatEq(va, vb)
	}
	if !eq(so1, sd1) {
		c.ViolateData("c20-expr-get", map[string]interface{}{"expr": orig.String(), "updates": c05Dump(ups)}, "%s: decoded %v evaluates (Get) differently from the original", what, orig)
		return false
	}
	mo := make([]byte, orig.EncodedWidth())
	md := make([]byte, dec.EncodedWidth())
	orig.Merge(mo, so1, so2)
	dec.Merge(md, sd1, sd2)
	if !bytes.Equal(mo, md) || !eq(mo, md) {
		c.ViolateData("c20-expr-merge", map[string]interface{}{"expr": orig.String(), "updates": c05Dump(ups)}, "%s: decoded %v merges states differently from the original", what, orig)
		return false
	}
	// the leader interprets follower sequences with decoded expressions: sub-merge from the ORIGINAL's
	// states through the DECODED expression's sub-mergers and vice versa
	smo := orig.SubMergers([]expr.Expr{orig})
	smd := dec.SubMergers([]expr.Expr{orig})
	smx := orig.SubMergers([]expr.Expr{dec})
	if (smo[0] == nil) != (smd[0] == nil) || (smo[0] == nil) != (smx[0] == nil) {
		c.Violate("c20-expr-submergers", "%s: SubMergers matching between original and decoded %v differs (orig->orig %v, dec->orig %v, orig->dec %v)", what, orig, smo[0] != nil, smd[0] != nil, smx[0] != nil)
		return false
	}
	if smo[0] != nil {
		meta := ups[0].meta
		a := make([]byte, orig.EncodedWidth())
		b := make([]byte, orig.EncodedWidth())
		smo[0](a, so1, time.Second, meta)
		smd[0](b, so1, time.Second, meta)
		if !bytes.Equal(a, b) {
			c.Violate("c20-expr-submerge", "%s: sub-merging through the decoded %v gives different bytes", what, orig)
			return false
		}
	}
	return true
}

// c20Marshal marshals v and checks the law "the bytes Marshal returned stay what they were": gRPC writes
// them to the wire after Marshal has returned, possibly while the next message is already being
// marshalled, so a result that a later Marshal call overwrites (shared / pooled buffer) corrupts
// messages in flight. The last few results are remembered together with a private copy.
type c20Marshalled struct {
	got  []byte
	copy []byte
	what string
}

var c20Recent []c20Marshalled

func c20Marshal(c *fw.Ctx, v interface{}, what string) ([]byte, error) {
	b, err := rpc.Codec.Marshal(v)
	if err != nil {
		return b, err
	}
	for _, old := range c20Recent {
		if !bytes.Equal(old.got, old.copy) {
			c.Violate("c20-marshal-result-overwritten", "the bytes returned by Codec.Marshal for %s (%d bytes) were changed by a later Marshal of %s (%d bytes): messages still in flight are corrupted", old.what, len(old.copy), what, len(b))
			c20Recent = nil
			return b, err
		}
	}
	c.Obs("marshal_results_rechecked", int64(len(c20Recent)))
	c20Recent = append(c20Recent, c20Marshalled{got: b, copy: append([]byte(nil), b...), what: what})
	if len(c20Recent) > 4 {
		c20Recent = c20Recent[1:]
	}
	return b, err
}

// c20BigMessages: messages between 1 KB and 400 KB (long raw series, wide flat rows, large keys), marshalled
// back to back and concurrently, each decoded and compared.
func c20BigMessages(c *fw.Ctx) {
	r := c.Rand
	mk := func(rr *rand.Rand) (*rpc.RemoteQueryResult, string) {
		size := 1 << (10 + rr.Intn(9))
		switch rr.Intn(3) {
		case 0:
			seq := encoding.NewSequence(encoding.Width64bits, size/8)
			rr.Read(seq[encoding.Width64bits:])
			return &rpc.RemoteQueryResult{Key: bytemap.New(map[string]interface{}{"k": rr.Intn(1000)}), Vals: core.Vals{seq, seq[:encoding.Width64bits*2]}}, fmt.Sprintf("raw series of %d bytes", len(seq))
		case 1:
			vals := make([]float64, size/8)
			for i := range vals {
				vals[i] = rr.NormFloat64()
			}
			return &rpc.RemoteQueryResult{Row: &core.FlatRow{TS: rr.Int63(), Key: bytemap.New(map[string]interface{}{"k": rr.Intn(1000)}), Values: vals}}, fmt.Sprintf("flat row of %d values", len(vals))
		default:
			big := make([]byte, size)
			for i := range big {
				big[i] = byte('a' + rr.Intn(26))
			}
			return &rpc.RemoteQueryResult{Row: &core.FlatRow{TS: rr.Int63(), Key: bytemap.New(map[string]interface{}{"k": string(big), "n": rr.Intn(10)}), Values: []float64{1, 2}}}, fmt.Sprintf("flat row with a key of %d bytes", size)
		}
	}
	same := func(in, out *rpc.RemoteQueryResult) bool {
		if !bytes.Equal(in.Key, out.Key) || len(in.Vals) != len(out.Vals) || (in.Row == nil) != (out.Row == nil) {
			return false
		}
		for i := range in.Vals {
			if !bytes.Equal(in.Vals[i], out.Vals[i]) {
				return false
			}
		}
		if in.Row != nil && (in.Row.TS != out.Row.TS || !bytes.Equal(in.Row.Key, out.Row.Key) || !reflect.DeepEqual(in.Row.Values, out.Row.Values)) {
			return false
		}
		return true
	}
	// back to back in one goroutine: marshal a burst, then decode all of them
	for round := 0; round < c.Pick(20, 100) && !c.Violated(); round++ {
		type sent struct {
			in   *rpc.RemoteQueryResult
			b    []byte
			what string
		}
		var burst []sent
		for k := 0; k < 2+r.Intn(4); k++ {
			in, what := mk(r)
			b, err := c20Marshal(c, in, what)
			if err != nil {
				c.Violate("c20-marshal-error", "cannot marshal %s: %v", what, err)
				return
			}
			burst = append(burst, sent{in, b, what})
		}
		for _, m := range burst {
			out := &rpc.RemoteQueryResult{}
			if err := rpc.Codec.Unmarshal(m.b, out); err != nil || !same(m.in, out) {
				c.Violate("c20-big-message", "%s marshalled in a burst of %d messages decodes differently (err %v)", m.what, len(burst), err)
				return
			}
			c.Obs("big_messages_round_tripped", 1)
		}
	}
	// concurrently from several goroutines (the rpc server marshals on one goroutine per stream)
	var wg sync.WaitGroup
	var mx sync.Mutex
	bad := ""
	for g := 0; g < 4; g++ {
		wg.Add(1)
		go func(seed int64) {
			defer wg.Done()
			rr := rand.New(rand.NewSource(seed))
			for k := 0; k < c.Pick(40, 200); k++ {
				in, what := mk(rr)
				b, err := rpc.Codec.Marshal(in)
				if err == nil {
					runtime.Gosched()
					out := &rpc.RemoteQueryResult{}
					if err = rpc.Codec.Unmarshal(b, out); err == nil && !same(in, out) {
						err = fmt.Errorf("decoded content differs")
					}
				}
				if err != nil {
					mx.Lock()
					bad = fmt.Sprintf("%s marshalled while other goroutines marshal: %v", what, err)
					mx.Unlock()
					return
				}
			}
		}(r.Int63())
	}
	wg.Wait()
	if bad != "" {
		c.Violate("c20-big-message-concurrent", "%s", bad)
	}
	c.Obs("concurrent_marshal_goroutines", 4)
}

func c20RoundTrips(c *fw.Ctx) {
	r := c.Rand
	n := c.Pick(400, 2500)
	exprs, nontrivial := 0, 0
	var sample []string
	c20Recent = nil
	c20BigMessages(c)
	// an empty (not nil) key is a legitimate group key ("group by a dimension this row lacks"); nil means
	// "no row in this message" to the leader's cluster query loop
	{
		in := &rpc.RemoteQueryResult{Key: bytemap.ByteMap{}, Vals: core.Vals{encoding.NewSequence(encoding.Width64bits, 2)}}
		b, err := c20Marshal(c, in, "raw-series result with an empty key")
		out := &rpc.RemoteQueryResult{}
		if err == nil {
			err = rpc.Codec.Unmarshal(b, out)
		}
		if err != nil || out.Key == nil || len(out.Vals) != 1 {
			c.Violate("c20-empty-key", "a raw-series result with an empty (non-nil) key decodes with key %v (nil=%v), %d series, err %v: the leader takes a nil key for the end of a partition's results", out.Key, out.Key == nil, len(out.Vals), err)
		}
		in3 := &rpc.RemoteQueryResult{Row: &core.FlatRow{TS: 5, Key: bytemap.ByteMap{}, Values: []float64{0}}}
		b, err = c20Marshal(c, in3, "flat row with an empty key and a zero value")
		out3 := &rpc.RemoteQueryResult{}
		if err == nil {
			err = rpc.Codec.Unmarshal(b, out3)
		}
		if err != nil || out3.Row == nil || out3.Row.TS != 5 || len(out3.Row.Values) != 1 {
			c.Violate("c20-empty-key", "a flat row with an empty key and the single value 0 decodes as %+v (err %v)", out3.Row, err)
		}
	}
	for i := 0; i < n && !c.Violated(); i++ {
		// ---- field lists
		nf := 1 + r.Intn(4)
		var fields core.Fields
		for f := 0; f < nf; f++ {
			e := c05Expr(r, r.Intn(4))
			fields = append(fields, core.NewField(fmt.Sprintf("f%d", f), e))
		}
		in := &rpc.RemoteQueryResult{Fields: fields}
		b, err := c20Marshal(c, in, "field list")
		if err != nil {
			c.Violate("c20-marshal-error", "cannot marshal fields %v: %v", fields, err)
			break
		}
		out := &rpc.RemoteQueryResult{}
		if err := rpc.Codec.Unmarshal(b, out); err != nil {
			c.ViolateData("c20-unmarshal-error", fields.Names(), "cannot unmarshal fields %v: %v", fields, err)
			break
		}
		if len(out.Fields) != len(fields) {
			c.Violate("c20-fields-count", "decoded %d fields, sent %d", len(out.Fields), len(fields))
			break
		}
		for f := range fields {
			exprs++
			if out.Fields[f].Name != fields[f].Name {
				c.Violate("c20-field-name", "field name %q decoded as %q", fields[f].Name, out.Fields[f].Name)
			}
			if out.Fields[f].Expr == nil {
				c.Violate("c20-expr-nil", "expression %v decoded as nil", fields[f].Expr)
				break
			}
			if len(fields[f].Expr.String()) > 12 {
				nontrivial++
			}
			if !c20Behaves(c, fields[f].Expr, out.Fields[f].Expr, "field "+fields[f].String()) {
				break
			}
			c.HashAdd(fields[f].Expr.String())
		}
		if len(sample) < 4 {
			sample = append(sample, fields[0].String())
		}
		if c.Violated() {
			break
		}
		// ---- keys, sequences, flat rows
		dims := gen.Dims(r)
		if r.Intn(3) == 0 {
			dims["t"] = time.Unix(int64(r.Intn(1e9)), 0).UTC()
			dims["i64"] = int64(r.Intn(100))
			dims["u"] = uint64(r.Intn(100))
		}
		key := bytemap.New(dims)
		e := fields[0].Expr
		seq := encoding.NewSequence(e.EncodedWidth(), 1+r.Intn(4))
		seq.SetUntil(gen.Base.Add(time.Duration(r.Intn(100)) * time.Second))
		r.Read(seq[encoding.Width64bits:])
		row := &core.FlatRow{TS: gen.Base.UnixNano() + int64(r.Intn(1e9)), Key: key, Values: []float64{r.NormFloat64(), float64(r.Intn(10)), math.MaxFloat64, 0}}
		stats := &common.QueryStats{NumPartitions: r.Intn(5), NumSuccessfulPartitions: r.Intn(5), LowestHighWaterMark: r.Int63(), HighestHighWaterMark: r.Int63(), MissingPartitions: []int{r.Intn(4), r.Intn(4)}}
		in2 := &rpc.RemoteQueryResult{Key: key, Vals: core.Vals{seq, nil, encoding.Sequence{}}, Row: row, Stats: stats, Error: fmt.Sprintf("err %d", i), EndOfResults: r.Intn(2) == 0}
		b, err = c20Marshal(c, in2, "result")
		if err != nil {
			c.Violate("c20-marshal-error", "cannot marshal result: %v", err)
			break
		}
		out2 := &rpc.RemoteQueryResult{}
		if err := rpc.Codec.Unmarshal(b, out2); err != nil {
			c.Violate("c20-unmarshal-error", "cannot unmarshal result: %v", err)
			break
		}
		if !bytes.Equal(out2.Key, key) || !reflect.DeepEqual(bytemap.ByteMap(out2.Key).AsMap(), key.AsMap()) {
			c.Violate("c20-key", "row key %v decoded as %v", key.AsMap(), bytemap.ByteMap(out2.Key).AsMap())
		}
		if len(out2.Vals) != 3 || !bytes.Equal(out2.Vals[0], seq) || len(out2.Vals[1]) != 0 || len(out2.Vals[2]) != 0 {
			c.Violate("c20-vals", "sequences decoded differently: sent %x, got %x", []byte(seq), out2.Vals)
		}
		if out2.Row == nil || out2.Row.TS != row.TS || !bytes.Equal(out2.Row.Key, row.Key) || !reflect.DeepEqual(out2.Row.Values, row.Values) {
			c.Violate("c20-flatrow", "flat row decoded differently: sent %+v, got %+v", row, out2.Row)
		}
		if !reflect.DeepEqual(out2.Stats, stats) || out2.Error != in2.Error || out2.EndOfResults != in2.EndOfResults {
			c.Violate("c20-result-meta", "stats/error/end decoded differently: sent %+v %q %v, got %+v %q %v", stats, in2.Error, in2.EndOfResults, out2.Stats, out2.Error, out2.EndOfResults)
		}
		// ---- Query with typed subquery results
		sq := [][]interface{}{{"a", "b"}, {1, 2, 3}, {1.5, true, nil}, {}}
		q := &rpc.Query{SQLString: "SELECT * FROM t WHERE x = 'é\x00\"'", IsSubQuery: r.Intn(2) == 0, SubQueryResults: sq, IncludeMemStore: r.Intn(2) == 0, Unflat: r.Intn(2) == 0, Deadline: time.Unix(int64(r.Intn(2e9)), int64(r.Intn(1e9))), HasDeadline: r.Intn(2) == 0}
		b, _ = c20Marshal(c, q, "query")
		q2 := &rpc.Query{}
		if err := rpc.Codec.Unmarshal(b, q2); err != nil {
			c.Violate("c20-unmarshal-error", "cannot unmarshal query: %v", err)
			break
		}
		if q2.SQLString != q.SQLString || q2.IsSubQuery != q.IsSubQuery || q2.IncludeMemStore != q.IncludeMemStore || q2.Unflat != q.Unflat || q2.HasDeadline != q.HasDeadline || !q2.Deadline.Equal(q.Deadline) {
			c.Violate("c20-query", "query decoded differently: sent %+v, got %+v", q, q2)
		}
		if len(q2.SubQueryResults) != len(sq) {
			c.Violate("c20-subquery-results", "subquery results: sent %v, got %v", sq, q2.SubQueryResults)
		} else {
			for li := range sq {
				if len(q2.SubQueryResults[li]) != len(sq[li]) {
					c.Violate("c20-subquery-results", "subquery results list %d: sent %v, got %v", li, sq[li], q2.SubQueryResults[li])
					continue
				}
				for vi := range sq[li] {
					// behaviour: the decoded value must compare equal to the original inside a dimension expression
					eqx, _ := goexpr.Binary("=", goexpr.Constant(q2.SubQueryResults[li][vi]), goexpr.Constant(sq[li][vi]))
					if res, _ := eqx.Eval(nil).(bool); !res {
						c.Violate("c20-subquery-value", "subquery result value %#v decoded as %#v, which no longer compares equal to it", sq[li][vi], q2.SubQueryResults[li][vi])
					}
				}
			}
		}
		// ---- Insert / Point / Follow
		ins := &rpc.Insert{Stream: "inbound", TS: row.TS, Dims: key, Vals: bytemap.New(map[string]interface{}{"x": 1.5, "n": 3}), EndOfInserts: r.Intn(2) == 0}
		b, _ = c20Marshal(c, ins, "insert")
		ins2 := &rpc.Insert{}
		if err := rpc.Codec.Unmarshal(b, ins2); err != nil || !reflect.DeepEqual(ins, ins2) {
			c.Violate("c20-insert", "insert message decoded differently (%v): sent %+v, got %+v", err, ins, ins2)
		}
		pt := &rpc.Point{Data: []byte{1, 2, 3, byte(i)}, Offset: wal.NewOffset(int64(r.Intn(1e9)), int64(r.Intn(1e6)))}
		b, _ = c20Marshal(c, pt, "point")
		pt2 := &rpc.Point{}
		if err := rpc.Codec.Unmarshal(b, pt2); err != nil || !bytes.Equal(pt.Data, pt2.Data) || !bytes.Equal(pt.Offset, pt2.Offset) {
			c.Violate("c20-point", "point decoded differently (%v)", err)
		}
		fo := &common.Follow{FollowerID: common.FollowerID{Partition: r.Intn(4), ID: r.Intn(4)}, Stream: "inbound", EarliestOffset: wal.NewOffset(5, 6),
			Partitions: map[string]*common.Partition{"a|b": {Keys: []string{"a", "b"}, Tables: []*common.PartitionTable{{Name: "t", Offsets: common.OffsetsBySource{0: wal.NewOffset(1, 2), 9: wal.NewOffset(3, 4)}}}}}}
		b, _ = c20Marshal(c, fo, "follow")
		fo2 := &common.Follow{}
		if err := rpc.Codec.Unmarshal(b, fo2); err != nil || !reflect.DeepEqual(fo, fo2) {
			c.Violate("c20-follow", "follow message decoded differently (%v): sent %+v, got %+v", err, fo, fo2)
		}
	}
	c.Obs("messages_round_tripped", int64(n)*6)
	c.Obs("expressions_round_tripped", int64(exprs))
	c.Nontrivial(nontrivial > 0)
	c.Sample(map[string]interface{}{"kind": "round-trips", "iterations": n, "example_fields": sample})
}

// ------------------------------------------------------------------------------------------

func c20EndToEnd(c *fw.Ctx) {
	r := c.Rand
	t := gen.Table(r, "t", "inbound")
	if r.Intn(2) == 0 {
		t.Fields = append(t.Fields, ref.FieldDef{Kind: "raw", Name: "pct", Raw: fmt.Sprintf("PERCENTILE(x, %d, -10, 50, 1)", 1+r.Intn(99))})
	}
	specs := []ref.TableSpec{t}
	spanP := 4 + r.Intn(20)
	span := time.Duration(spanP) * t.Res
	retention := span + t.Res*time.Duration(2+r.Intn(4))
	defs := defsFor(specs, nil, func(*ref.TableSpec) time.Duration { return retention })
	// a second table keeps every dimension: wide rows (CROSSTAB over a dimension with hundreds of values) and
	// rows with large keys cross the transport back to back
	defs = append(defs, dbh.TableDef{Name: "tw", SQL: fmt.Sprintf("SELECT SUM(x) AS sx, MAX(y) AS my FROM inbound GROUP BY period(%v)", t.Res), Retention: retention, Stream: "inbound"})
	n := 40 + r.Intn(160)
	points := gen.Points(r, n, span, t.Res)
	wide := r.Intn(2) == 0
	if wide {
		nWide := 200 + r.Intn(1300)
		bigLen := 1 << (8 + r.Intn(8))
		for i := 0; i < nWide; i++ {
			p := ref.Point{TS: gen.Timestamp(r, span, t.Res), Dims: map[string]interface{}{"wide": fmt.Sprintf("w%05d", i), "s": gen.StrVals[i%len(gen.StrVals)]}, Vals: map[string]interface{}{"x": float64(i), "y": float64(i % 17)}}
			if i%97 == 0 {
				p.Dims["big"] = strings.Repeat(string(rune('a'+i%26)), bigLen)
			}
			points = append(points, p)
		}
	}
	emb, err := dbh.Open(c.Dir+"/embedded", defs, dbh.Opts{VirtualTime: true})
	if err != nil {
		c.Violate("open", "cannot open db: %v", err)
		return
	}
	defer emb.Close()
	rem, err := dbh.Open(c.Dir+"/remote", defs, dbh.Opts{VirtualTime: true})
	if err != nil {
		c.Violate("open", "cannot open db: %v", err)
		return
	}
	defer rem.Close()
	l, err := net.Listen("tcp", "127.0.0.1:0")
	if err != nil {
		c.Inconclusive("listen: %v", err)
		return
	}
	serve, stop := rpcserver.PrepareServer(rem.DB, l, &rpcserver.Opts{ID: 1})
	go serve()
	defer stop()
	cl, err := rpc.Dial(l.Addr().String(), &rpc.ClientOpts{})
	if err != nil {
		c.Inconclusive("dial: %v", err)
		return
	}
	defer cl.Close()
	ctx, cancel := context.WithTimeout(context.Background(), 120*time.Second)
	defer cancel()
	// the points go over the transport in 1-4 batches (one inserter session each). Points with an empty dimension
	// or value map are sent too: the rpc insert handler rejects exactly those (and reports them), which must not
	// affect the other points of the batch - in particular when the rejected point is the first of its batch.
	nBatches := 1 + r.Intn(4)
	per := (len(points) + nBatches - 1) / nBatches
	sentTotal := 0
	for bi := 0; bi < nBatches; bi++ {
		lo, hi := bi*per, (bi+1)*per
		if hi > len(points) {
			hi = len(points)
		}
		if lo >= hi {
			break
		}
		batch := append([]ref.Point(nil), points[lo:hi]...)
		if r.Intn(2) == 0 {
			bad := ref.Point{TS: batch[0].TS, Dims: map[string]interface{}{"s": "a"}, Vals: map[string]interface{}{}}
			if r.Intn(2) == 0 {
				bad = ref.Point{TS: batch[0].TS, Dims: map[string]interface{}{}, Vals: map[string]interface{}{"x": 1.0}}
			}
			batch = append([]ref.Point{bad}, batch...)
			c.Obs("rpc_batches_starting_with_a_rejected_point", 1)
		}
		ins, err := cl.NewInserter(ctx, "inbound")
		if err != nil {
			c.Inconclusive("inserter: %v", err)
			return
		}
		sent, valid := 0, 0
		wantErr := map[int]bool{}
		for i := range batch {
			p := &batch[i]
			malformed := len(p.Dims) == 0 || len(p.Vals) == 0
			if !malformed {
				if err := insertPoint(emb, "inbound", p); err != nil {
					c.Violate("insert-error", "%v", err)
					return
				}
				valid++
			} else {
				wantErr[sent] = true
			}
			vals := p.Vals
			if err := ins.Insert(p.TS, p.Dims, func(cb func(string, interface{})) {
				for k, v := range vals {
					cb(k, v)
				}
			}); err != nil {
				c.Violate("c20-rpc-insert-error", "rpc insert failed: %v", err)
				return
			}
			sent++
		}
		report, err := ins.Close()
		if err != nil || report == nil {
			c.Violate("c20-rpc-insert-report", "closing the rpc inserter of a batch of %d points (%d of them with an empty dimension or value map, first point malformed: %v) failed: %v", sent, len(wantErr), wantErr[0], err)
			return
		}
		if report.Received != sent || report.Succeeded != valid || len(report.Errors) != len(wantErr) {
			c.Violate("c20-rpc-insert-report", "insert report %+v for a batch of %d points of which %d are well-formed (first point malformed: %v)", report, sent, valid, wantErr[0])
			return
		}
		sentTotal += valid
	}
	sent := sentTotal
	if !emb.WaitCaughtUp(quiesceTimeout) || !rem.WaitCaughtUp(quiesceTimeout) {
		c.Inconclusive("ingestion did not catch up")
		return
	}
	d := &dataset{db: emb, spec: &specs[0], specs: specs, points: points, retention: retention}
	d.cells, _ = specs[0].Aggregate(points)
	d.now = maxTS(points)
	d.until = ref.CeilTime(d.now, t.Res)
	d.asOf = ref.CeilTime(d.now.Add(-retention), t.Res)
	c.HashAdd(t.SQL(), n)
	nq := c.Pick(10, 30)
	rowsSeen := 0
	var samples []string
	queries := []string{"SELECT * FROM t"}
	for len(queries) < nq {
		queries = append(queries, genQuery(r, d, qOpts{noLimit: true}).SQL)
	}
	if wide {
		queries = append(queries, "SELECT sx FROM tw GROUP BY CROSSTAB(wide)", "SELECT * FROM tw GROUP BY s, CROSSTAB(wide)", "SELECT * FROM tw", "SELECT sx, my FROM tw GROUP BY big, s", "SELECT my FROM tw GROUP BY period("+(t.Res*time.Duration(spanP)).String()+"), CROSSTAB(wide)")
		c.Obs("wide_row_datasets", 1)
	}
	for _, q := range queries {
		if c.Violated() {
			break
		}
		want := emb.Query(q, true)
		got := &dbh.Result{SQL: q}
		md, iterate, err := cl.Query(ctx, q, true)
		c.Obs("queries", 1)
		if len(samples) < 3 {
			samples = append(samples, q)
		}
		if err != nil {
			got.PlanErr = err
		} else {
			got.Fields = md.FieldNames
			got.AsOf, got.Until, got.Res = md.AsOf, md.Until, md.Resolution
			_, err = iterate(func(fr *core.FlatRow) (bool, error) {
				row := dbh.Row{TS: fr.TS, Vals: append([]float64(nil), fr.Values...)}
				row.Dims = bytemap.ByteMap(append([]byte(nil), fr.Key...)).AsMap()
				row.Key = dbh.CanonKey(row.Dims)
				got.Rows = append(got.Rows, row)
				return true, nil
			})
			got.Err = err
		}
		if want.Failed() != got.Failed() {
			c.ViolateData("c20-rpc-error-differs", map[string]interface{}{"table": t.SQL(), "query": q}, "%q: embedded %q vs over rpc %q", q, want.ErrString(), got.ErrString())
			continue
		}
		if want.Failed() {
			continue
		}
		if !want.AsOf.Equal(got.AsOf) || !want.Until.Equal(got.Until) || want.Res != got.Res {
			c.ViolateData("c20-rpc-metadata", map[string]interface{}{"table": t.SQL(), "query": q}, "%q: metadata over rpc (asOf %v until %v res %v) differs from embedded (asOf %v until %v res %v)", q, got.AsOf, got.Until, got.Res, want.AsOf, want.Until, want.Res)
			continue
		}
		if diff := dbh.Diff(want, got, 0); diff != "" {
			c.ViolateData("c20-rpc-rows-differ", map[string]interface{}{"table": t.SQL(), "query": q}, "%q answered over rpc differs from the embedded answer: %s", q, diff)
		}
		rowsSeen += len(want.Rows)
	}
	c.Obs("rows_compared", int64(rowsSeen))
	c.Nontrivial(rowsSeen > 0)
	c.Sample(map[string]interface{}{"kind": "end-to-end", "table": t.SQL(), "points": sent, "queries": samples})
}
