package main

// C04 — queries are read-only: probe; Q; probe must be identical, also after the next flush.

import (
	"context"
	"fmt"
	"time"

	"verif/internal/dbh"
	"verif/internal/fw"
)

func init() {
	fw.Register(&fw.Property{
		ID:    "C04",
		Level: "exploration",
		Rule: "one case = generated table + points + memory/disk split; N pairs (Q, probes): probes = full native dump + 2 generated grouped probes (memstore-inclusive and disk-only), Q = generated query " +
			"(select lists, derived/SHIFT/CROSSHIFT fields, ASOF/UNTIL ending before the newest period, GROUP BY subsets/period/stride/CROSSTAB, IN-subqueries, HAVING, ORDER, LIMIT, both memstore options, early termination); " +
			"probe results before and after Q compared bit-for-bit, and again after FlushAll (1e-12); non-trivial = Q returned >=1 row and had a time range or regrouping; distinct by dataset+query hash",
		Assumptions: []string{"no insert happens between the probes", "nothing expires during the case (retention > data span)"},
		Cases: func(tier string) int {
			if tier == "quick" {
				return 72
			}
			return 900
		},
		Batch:            8,
		Workers:          8,
		RaceEvery:        4,
		PanicIsViolation: true,
		Run:              runC04,
	})
}

type probeSet struct {
	sqls []string
	mem  []bool
}

func runProbes(d *dataset, p *probeSet) []*dbh.Result {
	var out []*dbh.Result
	for i, s := range p.sqls {
		out = append(out, d.db.Query(s, p.mem[i]))
	}
	return out
}

func runC04(c *fw.Ctx) {
	r := c.Rand
	d := buildDataset(c, dsOpts{minPoints: 40, maxPoints: 250, spanPeriods: [2]int{4, 25}, opts: dbh.Opts{VirtualTime: true}})
	if d == nil {
		return
	}
	defer d.db.Close()
	probes := &probeSet{}
	add := func(sql string, mem bool) {
		probes.sqls = append(probes.sqls, sql)
		probes.mem = append(probes.mem, mem)
	}
	// disk-only probes are only stable while the memstore is empty (a timer flush may legitimately move
	// rows to disk at any moment), i.e. for the fully flushed split
	diskProbes := d.split == "disk"
	add("SELECT * FROM t", true)
	if diskProbes {
		add("SELECT * FROM t", false)
	}
	for k := 0; k < 2; k++ {
		q := genQuery(r, d, qOpts{noLimit: true, noOrder: true, noSubquery: true, noRange: true})
		add(q.SQL, true)
		if diskProbes {
			add(q.SQL, false)
		}
	}
	nq := c.Pick(30, 60)
	nontrivial := 0
	var samples []string
	before := runProbes(d, probes)
	for qi := 0; qi < nq && !c.Violated(); qi++ {
		q := genQuery(r, d, qOpts{pastUntilBias: true})
		mem := r.Intn(3) != 0
		stopAt := -1
		if r.Intn(5) == 0 {
			stopAt = r.Intn(10)
		}
		res := dbh.RunQuery(context.Background(), d.db.DB, q.SQL, mem, func(i int, row *dbh.Row) (bool, error) {
			return stopAt < 0 || i < stopAt, nil
		})
		c.Obs("queries", 1)
		if res.Failed() {
			c.Obs("queries_failed", 1)
		}
		if q.HasRange {
			c.Obs("queries_with_range", 1)
		}
		if len(res.Rows) > 0 && (q.HasRange || q.Grouped) {
			nontrivial++
		}
		if len(samples) < 3 {
			samples = append(samples, q.SQL)
		}
		c.HashAdd(q.SQL)
		after := runProbes(d, probes)
		for i := range before {
			if diff := dbh.Diff(before[i], after[i], 0); diff != "" {
				c.ViolateData("c04-probe-changed", map[string]interface{}{"dataset": d.describe(), "query": q.SQL, "query_mem": mem, "probe": probes.sqls[i], "probe_mem": probes.mem[i]},
					"probe %q (includeMemStore=%v) returns different rows after running %q (includeMemStore=%v, stopped at row %d) with no insert in between: %s", probes.sqls[i], probes.mem[i], q.SQL, mem, stopAt, diff)
				break
			}
		}
		c.Obs("probe_comparisons", int64(len(before)))
	}
	if !c.Violated() {
		// after the next flush the (memstore-inclusive) probes must still say the same, and the disk-only
		// probes must now equal the memstore-inclusive ones
		d.db.FlushAll()
		after := runProbes(d, probes)
		for i := range before {
			if !probes.mem[i] {
				continue
			}
			if diff := dbh.Diff(before[i], after[i], 1e-12); diff != "" {
				c.ViolateData("c04-probe-changed-after-flush", map[string]interface{}{"dataset": d.describe(), "probe": probes.sqls[i]},
					"probe %q returns different rows after the %d queries and a flush than before them: %s", probes.sqls[i], nq, diff)
				break
			}
			// right after the flush nothing is left in memory: disk-only must equal memstore-inclusive
			disk := d.db.Query(probes.sqls[i], false)
			if diff := dbh.Diff(after[i], disk, 1e-12); diff != "" {
				c.ViolateData("c04-disk-differs-after-flush", map[string]interface{}{"dataset": d.describe(), "probe": probes.sqls[i]},
					"after the queries and a flush, probe %q disk-only differs from memstore-inclusive: %s", probes.sqls[i], diff)
				break
			}
		}
		c.Obs("post_flush_comparisons", int64(len(before)))
	}
	c.Nontrivial(nontrivial > 0)
	c.Sample(map[string]interface{}{"dataset": d.describe(), "probes": probes.sqls, "queries": samples, "at": time.Now().UTC().Format(time.RFC3339)})
}

var _ = fmt.Sprint
