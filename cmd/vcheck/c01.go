package main

// C01 — each ingested point is aggregated exactly once into the right group and period.
// Reference aggregator over the raw points vs. the native dump of every table and view.

import (
	"fmt"
	"time"

	"verif/internal/dbh"
	"verif/internal/fw"
	"verif/internal/gen"
	"verif/internal/ref"
)

func init() {
	fw.Register(&fw.Property{
		ID:    "C01",
		Level: "exploration",
		Rule: "one case = one generated schema (1-3 tables + optional view on one stream, group-by */subset, resolution 1s-1m, optional WHERE, 1-5 fields from the aggregate grammar) x 20-300 generated points " +
			"(mixed-type/missing dims, missing/extra/non-numeric values, boundary and +-1ns timestamps, duplicates, shuffled arrival) x timed and forced flushes at PRNG positions; " +
			"non-trivial = some cell holds >=2 points AND a boundary timestamp occurs AND >=1 forced flush between inserts; distinct by schema+points hash",
		Assumptions: []string{"timestamps lie inside a span shorter than every table's retention (nothing expires)", "aggregates over an empty set and divisions by zero are don't-care", "arrays are not generated here (see C16)"},
		Cases: func(tier string) int {
			if tier == "quick" {
				return 120
			}
			return 4000
		},
		Batch:            10,
		Workers:          8,
		RaceEvery:        5,
		PanicIsViolation: true,
		Run:              runC01,
	})
}

type c01Setup struct {
	specs  []ref.TableSpec
	defs   []dbh.TableDef
	points []ref.Point
	span   time.Duration
	minRes time.Duration
}

func c01Generate(c *fw.Ctx, maxPoints int) *c01Setup {
	r := c.Rand
	s := &c01Setup{}
	nt := 1 + r.Intn(3)
	maxRes := time.Duration(0)
	s.minRes = time.Hour
	for i := 0; i < nt; i++ {
		t := gen.Table(r, fmt.Sprintf("t%d", i), "inbound")
		s.specs = append(s.specs, t)
		if t.Res > maxRes {
			maxRes = t.Res
		}
		if t.Res < s.minRes {
			s.minRes = t.Res
		}
	}
	if r.Intn(2) == 0 {
		s.specs = append(s.specs, viewOf(r, &s.specs[r.Intn(nt)], "v0"))
	}
	s.span = time.Duration(3+r.Intn(12)) * maxRes
	retention := func(t *ref.TableSpec) time.Duration {
		return s.span + t.Res*time.Duration(1+r.Intn(5)) + time.Duration(r.Intn(1000))*time.Millisecond
	}
	s.defs = defsFor(s.specs, r, retention)
	n := 20 + r.Intn(maxPoints-20)
	s.points = gen.Points(r, n, s.span, s.minRes)
	return s
}

func runC01(c *fw.Ctx) {
	r := c.Rand
	s := c01Generate(c, 300)
	if c.Case%2 == 1 {
		// odd cases: some values arrive as arrays. zenodb inserts the first element with the point and every
		// further element as a point of its own carrying only that field; each of them must be aggregated once.
		arrays := 0
		for i := range s.points {
			if r.Intn(8) != 0 {
				continue
			}
			for _, f := range gen.ValFields {
				switch v := s.points[i].Vals[f].(type) {
				case float64:
					arr := []float64{v}
					for k := 0; k < 1+r.Intn(3); k++ {
						arr = append(arr, float64(r.Intn(241)-40)/4)
					}
					s.points[i].Vals[f] = arr
					arrays++
				case int:
					arr := []int{v}
					for k := 0; k < 1+r.Intn(3); k++ {
						arr = append(arr, r.Intn(41)-8)
					}
					s.points[i].Vals[f] = arr
					arrays++
				}
				if r.Intn(2) == 0 {
					break
				}
			}
		}
		c.Obs("array_values", int64(arrays))
	}
	c.HashAdd(describeTables(s.specs), len(s.points))
	for i := range s.points {
		c.HashAdd(s.points[i].TS.UnixNano())
	}
	db, err := dbh.Open(c.Dir, s.defs, dbh.Opts{VirtualTime: true})
	if err != nil {
		c.Violate("open", "cannot open database with generated schema %v: %v", describeTables(s.specs), err)
		return
	}
	defer db.Close()
	order := r.Perm(len(s.points))
	forced := 0
	boundary := false
	for k, i := range order {
		p := &s.points[i]
		if p.TS.Sub(gen.Base)%s.minRes == 0 {
			boundary = true
		}
		if err := insertPoint(db, "inbound", p); err != nil {
			c.Violate("insert-error", "insert of point %d failed: %v", p.ID, err)
			return
		}
		if k > 0 && k < len(order)-1 && r.Intn(40) == 0 {
			db.FlushAll()
			forced++
		}
		if r.Intn(50) == 0 {
			time.Sleep(time.Duration(r.Intn(3)) * time.Millisecond)
		}
	}
	if !db.WaitCaughtUp(quiesceTimeout) {
		c.Inconclusive("ingestion did not catch up within %v", quiesceTimeout)
		return
	}
	c.Obs("points", int64(len(s.points)))
	c.Obs("forced_flushes", int64(forced))
	multi := false
	data := map[string]interface{}{"tables": describeTables(s.specs), "points": len(s.points)}
	arraysDoubled := false
	for ti := range s.specs {
		t := &s.specs[ti]
		// Array values: the comparison uses what the pinned tree does (elements after the first twice, see
		// ref.ArrayElementsTwice), so that any *other* deviation on array-valued points is still a violation;
		// wherever that differs from each element once, the known finding is reported.
		sane, _ := t.Aggregate(s.points)
		ref.ArrayElementsTwice = true
		cells, ood := t.Aggregate(s.points)
		ref.ArrayElementsTwice = false
		for id, cell := range cells {
			if sc := sane[id]; sc == nil || sc.Points != cell.Points {
				arraysDoubled = true
			}
		}
		if ood > 0 {
			c.Obs("tables_out_of_reference_domain", 1)
			continue
		}
		total := 0
		for _, cell := range cells {
			if cell.Points >= 2 {
				multi = true
			}
			total += cell.Points
		}
		res := db.Query("SELECT * FROM "+t.Name, true)
		n := compareCells(c, "table "+t.Name+" ("+t.SQL()+")", res, cells, t.Fields, 1e-9, "native", data)
		c.Obs("cells_compared", int64(len(cells)))
		c.Obs("field_values_compared", int64(n))
		c.Obs("tables_compared", 1)
		if t.ViewOf != "" {
			c.Obs("views_compared", 1)
		}
		// conservation
		if !res.Failed() {
			if pi := res.Field("_points"); pi >= 0 {
				sum := 0.0
				for i := range res.Rows {
					sum += res.Rows[i].Vals[pi]
				}
				if sum != float64(total) {
					c.ViolateData("native-conservation", data, "table %s: sum of _points over all rows is %v but %d points were accepted", t.Name, sum, total)
				}
			}
		}
		if c.Violated() {
			break
		}
	}
	if arraysDoubled && !c.Violated() {
		c.Violate("c01-array-elements-doubled", "array-valued points: the tables hold every array element after the first twice (e.g. [a, b, c] adds a + 2b + 2c to SUM and 5 to _points); everything else about these points matched")
	}
	c.Nontrivial(multi && boundary && forced > 0)
	c.Sample(map[string]interface{}{"tables": describeTables(s.specs), "points": len(s.points), "forced_flushes": forced, "first_point": fmt.Sprintf("%v %v %v", s.points[0].TS.Format(time.RFC3339Nano), s.points[0].Dims, s.points[0].Vals)})
}
