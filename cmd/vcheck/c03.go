package main

// C03 — query results do not depend on flush timing or on where data currently lives.
// Metamorphic: the same points under different flush/restart schedules must give the same rows.

import (
	"fmt"
	"sync/atomic"
	"time"

	"github.com/getlantern/zenodb"

	"verif/internal/dbh"
	"verif/internal/fw"
	"verif/internal/gen"
	"verif/internal/ref"
)

func init() {
	fw.Register(&fw.Property{
		ID:    "C03",
		Level: "exploration",
		Rule: "one case = one generated table (aggregate grammar + PERCENTILE and arithmetic-over-PERCENTILE fields) + 60-300 points, executed under a baseline schedule (never flush) and K alternative schedules " +
			"(flush every k-th insert; timer-driven with min/max latency; forced at PRNG indices; >=12 data-carrying flushes; sorted flushes under a memory cap (in every real-clock case); clean close+reopen between segments); " +
			"for each schedule the same generated queries (SELECT *, field subsets, derived and SHIFT fields, coarser groupings, ranges) must return the baseline's rows (1e-9), and after a final FlushAll disk-only == memstore-inclusive; " +
			"non-trivial = the schedule performed >=1 data-carrying flush strictly between inserts (so some keys are split between file and memory); distinct by dataset+schedule hash",
		Assumptions: []string{"nothing expires during the case (retention > data span)", "queries with unordered LIMIT are excluded (any n rows are allowed)"},
		Cases: func(tier string) int {
			if tier == "quick" {
				return 12
			}
			return 250
		},
		Batch:            4,
		Workers:          8,
		RaceEvery:        3,
		BatchTimeout:     45 * time.Minute,
		PanicIsViolation: true,
		RaceSig:          storageRaceSig,
		Run:              runC03,
	})
}

type c03Schedule struct {
	name     string
	everyK   int
	timer    bool
	forcedAt map[int]bool
	reopenAt map[int]bool
	sorted   bool
	pressure bool
}

func runC03(c *fw.Ctx) {
	r := c.Rand
	t := gen.Table(r, "t", "inbound")
	// add large-state and derived fields that only the differential can judge
	if r.Intn(2) == 0 {
		t.Fields = append(t.Fields, ref.FieldDef{Kind: "raw", Name: "pct", Raw: fmt.Sprintf("PERCENTILE(x, %d, -10, 50, %d)", 1+r.Intn(99), r.Intn(2))})
	}
	if r.Intn(3) == 0 {
		t.Fields = append(t.Fields, ref.FieldDef{Kind: "raw", Name: "ratio", Raw: "SUM(y) / COUNT(z)"})
	}
	if r.Intn(3) == 0 {
		t.Fields = append(t.Fields, ref.FieldDef{Kind: "raw", Name: "ifavg", Raw: "IF(" + gen.Pred(r, 1).SQL() + ", AVG(z))"})
	}
	spanP := 4 + r.Intn(26)
	span := time.Duration(spanP) * t.Res
	retention := span + t.Res*time.Duration(2+r.Intn(5)) + time.Duration(r.Intn(2))*t.Res/2
	n := 60 + r.Intn(241)
	points := gen.Points(r, n, span, t.Res)
	// Restart schedules need the real clock (a restarted virtual clock starts at zero, which is an
	// artefact of the test clock): odd cases run on the real clock with timestamps 2-3h in the past,
	// a long retention, and only queries whose result does not depend on the clock (ungrouped dump,
	// or explicit absolute ASOF and UNTIL).
	realClock := c.Case%2 == 1
	if realClock {
		realBase := time.Now().Add(-3 * time.Hour).Truncate(time.Hour)
		shift := realBase.Sub(gen.Base)
		for i := range points {
			points[i].TS = points[i].TS.Add(shift)
		}
		retention = 48*time.Hour + time.Duration(r.Intn(2))*t.Res/2
	}
	specs := []ref.TableSpec{t}
	c.HashAdd(t.SQL(), n, span)

	// schedules
	nAlt := c.Pick(4, 7)
	scheds := []c03Schedule{{name: "never-flush"}}
	kinds := r.Perm(7)
	if realClock {
		// every real-clock case runs the sorted-flush schedule (it is the only one that reaches the external sorter)
		has := false
		for _, k := range kinds[:nAlt] {
			has = has || k == 4
		}
		if !has {
			kinds[nAlt-1] = 4
		}
	}
	for _, k := range kinds[:nAlt] {
		if !realClock && k >= 4 {
			k = k - 4 // no restarts on the virtual clock
		}
		s := c03Schedule{forcedAt: map[int]bool{}, reopenAt: map[int]bool{}}
		switch k {
		case 0:
			s.name = "every-kth"
			s.everyK = 1 + r.Intn(20)
		case 1:
			s.name = "timer"
			s.timer = true
		case 2:
			s.name = "forced-few"
			for j := 0; j < 1+r.Intn(4); j++ {
				s.forcedAt[1+r.Intn(n-1)] = true
			}
		case 3:
			s.name = "twelve-plus-flushes"
			for j := 0; j < 12+r.Intn(15); j++ {
				s.forcedAt[1+r.Intn(n-1)] = true
			}
		case 4:
			// sorted flushes happen on Close (and under memory pressure) when a memory cap is configured.
			// DB.FlushAll cannot be used with a memory cap: it holds the tables mutex while the flush's
			// shouldSort() wants to read-lock it (observed deadlock, see DESIGN.md), so this schedule
			// flushes through clean restarts, plus (every other time) a cap so small that every insert
			// forces a sorted memory-pressure flush
			s.name = "sorted"
			s.sorted = true
			for j := 0; j < 2+r.Intn(6); j++ {
				s.reopenAt[1+r.Intn(n-1)] = true
			}
			s.pressure = r.Intn(3) == 0
		case 5:
			s.name = "reopen"
			for j := 0; j < 1+r.Intn(3); j++ {
				s.reopenAt[1+r.Intn(n-1)] = true
			}
		default:
			s.name = "mixed"
			s.timer = r.Intn(2) == 0
			for j := 0; j < 3+r.Intn(10); j++ {
				s.forcedAt[1+r.Intn(n-1)] = true
			}
			s.reopenAt[1+r.Intn(n-1)] = true
		}
		scheds = append(scheds, s)
	}

	// queries (generated against a throw-away dataset description)
	dsDesc := &dataset{spec: &specs[0], specs: specs, points: points, retention: retention}
	dsDesc.cells, _ = specs[0].Aggregate(points)
	dsDesc.now = maxTS(points)
	dsDesc.until = ref.CeilTime(dsDesc.now, t.Res)
	dsDesc.asOf = ref.CeilTime(dsDesc.now.Add(-retention), t.Res)
	queries := []string{"SELECT * FROM t"}
	nq := c.Pick(6, 10)
	for len(queries) < nq {
		q := genQuery(r, dsDesc, qOpts{noLimit: true, fullRange: realClock})
		queries = append(queries, q.SQL)
	}

	var baseline []*dbh.Result
	nontrivial := false
	for si, s := range scheds {
		if c.Violated() {
			break
		}
		dir := fmt.Sprintf("%s/s%d", c.Dir, si)
		def := dbh.TableDef{Name: "t", SQL: t.SQL(), Retention: retention, Stream: "inbound"}
		if s.timer {
			def.MaxFlush = time.Duration(1+r.Intn(5)) * time.Millisecond
			if r.Intn(2) == 0 {
				def.MinFlush = time.Duration(1+r.Intn(3)) * time.Millisecond
			}
		}
		opts := dbh.Opts{VirtualTime: !realClock}
		if s.sorted {
			opts.MaxMemoryRatio = 0.9
			if s.pressure {
				opts.MaxMemoryRatio = 1e-12
			}
		}
		db, err := dbh.Open(dir, []dbh.TableDef{def}, opts)
		if err != nil {
			c.Violate("open", "cannot open database: %v", err)
			return
		}
		flushesBetween := 0
		ok := true
		wait := quiesceTimeout
		if s.pressure {
			// every insert forces a GC and a flush: slow, and much slower on a loaded machine
			wait = 8 * time.Minute
		}
		for i := range points {
			if s.forcedAt[i] || (s.everyK > 0 && i > 0 && i%s.everyK == 0) {
				if !db.WaitCaughtUp(quiesceTimeout) {
					ok = false
					break
				}
				db.FlushAll()
				flushesBetween++
			}
			if s.reopenAt[i] {
				if !db.WaitCaughtUp(wait) {
					ok = false
					break
				}
				if err := db.Reopen(); err != nil {
					c.Violate("reopen", "schedule %s: reopen failed: %v", s.name, err)
					ok = false
					break
				}
				flushesBetween++
			}
			if err := insertPoint(db, "inbound", &points[i]); err != nil {
				c.Violate("insert-error", "insert failed: %v", err)
				ok = false
				break
			}
			if s.timer && r.Intn(10) == 0 {
				time.Sleep(time.Duration(1+r.Intn(4)) * time.Millisecond)
			}
		}
		if ok && !db.WaitCaughtUp(wait) {
			ok = false
		}
		if !ok {
			db.CloseBounded(20 * time.Second)
			if !c.Violated() {
				c.Inconclusive("schedule %s: ingestion did not catch up", s.name)
			}
			return
		}
		var results []*dbh.Result
		for _, q := range queries {
			results = append(results, db.Query(q, true))
		}
		c.Obs("schedules_run", 1)
		c.Obs("schedule:"+s.name, 1)
		if si == 0 {
			baseline = results
		} else {
			if flushesBetween > 0 || s.timer {
				nontrivial = true
			}
			for qi := range queries {
				c.Obs("result_comparisons", 1)
				if diff := dbh.Diff(baseline[qi], results[qi], 1e-9); diff != "" {
					c.ViolateData("c03-schedule-differs", map[string]interface{}{"table": t.SQL(), "points": n, "schedule": s.name, "query": queries[qi]},
						"query %q returns different rows under schedule %q (%d flushes/restarts between inserts) than when nothing is ever flushed: %s", queries[qi], s.name, flushesBetween, diff)
					break
				}
			}
		}
		// a flush that completes while a query is between taking its memstore copy and scanning the
		// file must not change what the query returns (hook points outside any lock)
		if !c.Violated() && !s.sorted {
			for _, pt := range []string{"iterate.afterCopy", "iterate.beforeScan"} {
				// something must be in memory for the flush to carry data
				extra := points[r.Intn(len(points))]
				_ = extra
				qi := r.Intn(len(queries))
				var armed int32 = 1
				fired := false
				zenodb.VerifSetHandler(func(name string, n int64) {
					if name == pt && atomic.CompareAndSwapInt32(&armed, 1, 0) {
						fired = true
						db.FlushAll()
					}
				})
				got := db.Query(queries[qi], true)
				zenodb.VerifSetHandler(nil)
				if fired {
					c.Obs("flush_inside_query:"+pt, 1)
				}
				if diff := dbh.Diff(results[qi], got, 1e-9); diff != "" {
					c.ViolateData("c03-flush-during-query", map[string]interface{}{"table": t.SQL(), "schedule": s.name, "query": queries[qi], "point": pt},
						"under schedule %q, %q returns different rows when a flush completes at %s (between the query's memstore copy and its file scan) than on the same quiescent data: %s", s.name, queries[qi], pt, diff)
					break
				}
				// put data back in memory for the next placement: re-insert nothing (results must stay the
				// same), so only the first placement carries data unless the schedule left data in memory
			}
		}
		// immediately after a completed flush: disk-only == memstore-inclusive
		if !c.Violated() {
			if s.sorted {
				if err := db.Reopen(); err != nil {
					c.Violate("reopen", "schedule %s: reopen failed: %v", s.name, err)
					break
				}
				if !db.WaitCaughtUp(wait) {
					c.Inconclusive("schedule %s: ingestion did not catch up after reopen", s.name)
					db.CloseBounded(20 * time.Second)
					return
				}
			} else {
				db.FlushAll()
			}
			for qi, q := range queries {
				mem := db.Query(q, true)
				disk := db.Query(q, false)
				c.Obs("disk_vs_mem_comparisons", 1)
				if diff := dbh.Diff(mem, disk, 1e-9); diff != "" {
					c.ViolateData("c03-disk-vs-mem", map[string]interface{}{"table": t.SQL(), "schedule": s.name, "query": q},
						"right after a completed flush under schedule %q, %q disk-only differs from memstore-inclusive: %s", s.name, q, diff)
					break
				}
				if diff := dbh.Diff(results[qi], mem, 1e-9); diff != "" {
					c.ViolateData("c03-flush-changes-result", map[string]interface{}{"table": t.SQL(), "schedule": s.name, "query": q},
						"under schedule %q the final flush changed the result of %q: %s", s.name, q, diff)
					break
				}
			}
		}
		db.Close()
	}
	c.Nontrivial(nontrivial)
	var names []string
	for _, s := range scheds {
		names = append(names, s.name)
	}
	c.Sample(map[string]interface{}{"table": t.SQL(), "points": n, "schedules": names, "queries": queries})
}
