package main

// C02 — crash recovery applies every acknowledged insert exactly once.
// Real process kills: a child process inserts unique ids (TRY/ACK log), and is killed either at a
// named instrumented point (kill(self, SIGKILL) at the n-th hit) or asynchronously by the parent;
// after every restart a verifier child decodes every table and the parent checks the history.

import (
	"bufio"
	"encoding/json"
	"fmt"
	"math"
	"math/rand"
	"os"
	"os/exec"
	"path/filepath"
	"sort"
	"strconv"
	"strings"
	"syscall"
	"time"

	"github.com/getlantern/zenodb"

	"verif/internal/dbh"
	"verif/internal/fw"
)

func init() {
	extraCommands["c02child"] = c02Child
	fw.Register(&fw.Property{
		ID:    "C02",
		Level: "fault_enumeration",
		Rule: "one case = one data directory going through 4-7 rounds; in every round a child process (real clock, WAL synced on write, flush latency 2-20ms, 4 tables incl. one with a WHERE and one with one incompressible 2.5 KB row per id, so that its flushes span many 64 KB blocks) inserts fresh unique ids logging TRY before and ACK after each insert and is killed " +
			"(a) at a named instrumented point at its n-th hit — the (point, occurrence) pairs are enumerated from a dry run's hit counts over all cases of the tier — or (b) by an asynchronous SIGKILL after the K-th ACK plus a PRNG micro-delay, or (c) not at all (clean close); " +
			"after every round a verifier child restarts on the directory, waits for exact quiescence and decodes every table (value 3^j encoding, memstore-inclusive, and disk-only after a flush): " +
			"acknowledged ids must have multiplicity 1, the in-flight id at most 1, never attempted ids 0, in every table (the WHERE table only for matching ids); " +
			"non-trivial = the kill landed while the memstore was non-empty or inside the flush/offset protocol; distinct by (point, occurrence) / kill position",
		Assumptions: []string{"process kills only (no power loss: un-synced pages cannot vanish in this sandbox)", "restarts use the real clock with data 2h old and a 48h retention"},
		Cases: func(tier string) int {
			if tier == "quick" {
				return 12
			}
			return 160
		},
		Batch:            4,
		Workers:          8,
		PanicIsViolation: false,
		RaceEvery:        4,
		BatchTimeout:     25 * time.Minute,
		Run:              runC02,
	})
}

var c02Defs = []dbh.TableDef{
	{Name: "t_all", SQL: "SELECT SUM(v) AS v FROM inbound GROUP BY k, period(1h)", Retention: 48 * time.Hour, Stream: "inbound"},
	{Name: "t_where", SQL: "SELECT SUM(v) AS v FROM inbound WHERE odd = 1 GROUP BY k, period(1h)", Retention: 48 * time.Hour, Stream: "inbound"},
	{Name: "t_both", SQL: "SELECT SUM(v) AS v, COUNT(v) AS c FROM inbound GROUP BY k, odd, period(1h)", Retention: 48 * time.Hour, Stream: "inbound"},
	// one row of 2.5 KB (incompressible) per id: a flush of this table writes many 64 KB blocks of the
	// compressed stream and most rows any flush writes are its rows, so a kill in the middle of a row loop
	// usually leaves a partially written output file behind (not just an empty one)
	{Name: "t_fat", SQL: "SELECT SUM(v) AS v FROM inbound GROUP BY k, sub, pad, period(1h)", Retention: 48 * time.Hour, Stream: "inbound"},
}

func c02Pad(i int) string {
	r := rand.New(rand.NewSource(int64(i) + 77))
	b := make([]byte, 2500)
	for j := range b {
		b[j] = byte('0' + r.Intn(75))
	}
	return string(b)
}

// c02PartialTemp reports whether a flush output file that is still being written already has content on
// disk: a non-empty "nextrowstore*" file in the child's private TMPDIR or a non-empty "*.tmp" file in a
// table directory. Only a flush that has written more than one 64 KB block is in that state.
func c02PartialTemp(tmpDir, dbDir string, old map[string]bool) bool {
	for _, n := range c02TempFiles(tmpDir, dbDir) {
		if old[n] {
			continue // left behind by an earlier kill
		}
		if st, err := os.Stat(n); err == nil && st.Size() > 0 {
			return true
		}
	}
	return false
}

func c02TempFiles(tmpDir, dbDir string) []string {
	a, _ := filepath.Glob(filepath.Join(tmpDir, "nextrowstore*"))
	b, _ := filepath.Glob(filepath.Join(dbDir, "*", "*.tmp"))
	return append(a, b...)
}

// c02Child: vcheck c02child insert <dir> <startID> <count> <flushMS> <base unix> | verify <dir> | counts (via env VERIF_COUNTS)
func c02Child(args []string) int {
	if len(args) < 2 {
		return 3
	}
	mode, dir := args[0], args[1]
	defs := append([]dbh.TableDef(nil), c02Defs...)
	flushMS := 5
	if len(args) > 4 {
		flushMS, _ = strconv.Atoi(args[4])
	}
	for i := range defs {
		defs[i].MaxFlush = time.Duration(flushMS+i) * time.Millisecond
	}
	opts := dbh.Opts{}
	if os.Getenv("VERIF_C02_SLOWFAT") != "" {
		// the table with the big rows is never flushed by its timer: between clean closes everything it holds
		// lives in memory and in the WAL only (well over a megabyte per round)
		defs[len(defs)-1].MaxFlush = time.Hour
		defs[len(defs)-1].MinFlush = time.Hour
	}
	arrays := os.Getenv("VERIF_C02_PRESSURE") != "" && mode == "insert"
	if arrays {
		// memory cap so small that every applied entry forces a (sorted) flush first; values arrive as arrays
		// of two parts, so that a partly applied point is visible in the sum
		opts.MaxMemoryRatio = 1e-12
	}
	db, err := dbh.Open(dir, defs, opts)
	if err != nil {
		fmt.Println("ERROR open", err)
		return 4
	}
	out := os.Stdout
	switch mode {
	case "insert":
		start, _ := strconv.Atoi(args[2])
		count, _ := strconv.Atoi(args[3])
		baseUnix, _ := strconv.ParseInt(args[5], 10, 64)
		base := time.Unix(baseUnix, 0)
		r := rand.New(rand.NewSource(int64(start)))
		fmt.Fprintf(out, "OPEN\n")
		value := func(i int) map[string]interface{} {
			v := math.Pow(3, float64(i%30))
			if arrays {
				// the pinned tree inserts every array element after the first twice (known finding under C01), so
				// [x, y] contributes x + 2y: chosen so that the point still contributes exactly 3^j, while a point
				// applied only in part leaves 3^(j-1) (or a fraction) behind and is caught by the decode
				switch {
				case i%30 == 0:
					return map[string]interface{}{"v": []float64{0.5, 0.25}}
				case i%30 == 1:
					return map[string]interface{}{"v": []float64{v / 3, v / 3}}
				}
				e := v / 9 // five equal elements: e + 2*4e = 9e = 3^j
				return map[string]interface{}{"v": []float64{e, e, e, e, e}}
			}
			return map[string]interface{}{"v": v}
		}
		for i := start; i < start+count; i++ {
			fmt.Fprintf(out, "TRY %d\n", i)
			err := db.Insert("inbound", base.Add(time.Duration(i%3000)*time.Second), map[string]interface{}{"k": fmt.Sprintf("c%05d", i/30), "odd": i % 2, "sub": i % 30, "pad": c02Pad(i)}, value(i))
			if err != nil {
				fmt.Fprintf(out, "ERR %d %v\n", i, err)
				continue
			}
			fmt.Fprintf(out, "ACK %d\n", i)
			if r.Intn(3) == 0 {
				time.Sleep(time.Duration(r.Intn(1500)) * time.Microsecond)
			}
		}
		// let timer flushes, offset writes and old-file removal happen before the clean close
		time.Sleep(time.Duration(20+r.Intn(60)) * time.Millisecond)
		// DB.Close() can hang forever when a table's ingest goroutine is still handing an insert to a row
		// store that has already stopped (observed, see DESIGN.md); the clean-close round therefore waits
		// for ingestion to catch up first
		db.WaitCaughtUp(60 * time.Second)
		if os.Getenv("VERIF_COUNTS") != "" {
			b, _ := json.Marshal(zenodb.VerifCounts())
			fmt.Fprintf(out, "COUNTS %s\n", b)
		}
		if arrays {
			// with a memory cap DB.Close can deadlock (it holds the tables mutex while a forced flush asks whether it
			// should sort, DESIGN observations): the clean rounds of this variant end the process without closing
			fmt.Fprintf(out, "CLOSED\n")
			os.Exit(0)
		}
		db.Close()
		fmt.Fprintf(out, "CLOSED\n")
		return 0
	case "verify":
		if !db.WaitCaughtUp(300 * time.Second) {
			fmt.Fprintf(out, "NOTCAUGHTUP\n")
			return 5
		}
		dump := func(tag string, mem bool) {
			for _, t := range defs {
				res := db.Query("SELECT * FROM "+t.Name, mem)
				if res.Failed() {
					fmt.Fprintf(out, "QUERYERR %s %s %s\n", tag, t.Name, res.ErrString())
					continue
				}
				vi, pi := res.Field("v"), res.Field("_points")
				for i := range res.Rows {
					row := &res.Rows[i]
					fmt.Fprintf(out, "ROW %s %s %v|%v %v %v\n", tag, t.Name, row.Dims["k"], row.Dims["odd"], row.Vals[vi], row.Vals[pi])
				}
			}
		}
		dump("mem", true)
		db.FlushAll()
		dump("disk", false)
		db.Close()
		fmt.Fprintf(out, "VERIFIED\n")
		return 0
	}
	return 3
}

type c02Round struct {
	kind     string // named | async | clean
	point    string
	n        int64
	killAt   int // async: after this many ACKs
	startID  int
	count    int
	acked    map[int]bool
	tried    map[int]bool
	died     bool
	reached  bool
	lastLine string
}

func c02RunChild(c *fw.Ctx, env []string, timeout time.Duration, killAfterAcks int, delay time.Duration, args ...string) (lines []string, died bool, err error) {
	bin := filepath.Join(fw.BinDir(), "vcheck")
	if c.IsRace {
		bin += "-race"
	}
	outPath := filepath.Join(c.Dir, fmt.Sprintf("child-%d.out", time.Now().UnixNano()))
	outF, _ := os.Create(outPath)
	errF, _ := os.Create(outPath + ".err")
	cmd := exec.Command(bin, append([]string{"c02child"}, args...)...)
	// a private TMPDIR per case: zenodb writes its flush output there before renaming it into the table directory
	childTmp := filepath.Join(c.Dir, "childtmp")
	os.MkdirAll(childTmp, 0755)
	cmd.Env = append(append(os.Environ(), env...), "TMPDIR="+childTmp)
	if g := os.Getenv("GORACE"); g != "" {
		// race reports of the children go to the worker's race log (collected and attributed by the scheduler); they
		// must not turn the child's exit status into 66
		cmd.Env = append(cmd.Env, "GORACE="+g+" exitcode=0")
	}
	oldTemp := map[string]bool{}
	if len(args) > 1 {
		for _, n := range c02TempFiles(childTmp, args[1]) {
			oldTemp[n] = true
		}
	}
	cmd.Stdout = outF
	cmd.Stderr = errF
	if err := cmd.Start(); err != nil {
		return nil, false, err
	}
	done := make(chan error, 1)
	go func() { done <- cmd.Wait() }()
	deadline := time.After(timeout)
	tick := time.NewTicker(200 * time.Microsecond)
	defer tick.Stop()
	killed := false
loop:
	for {
		select {
		case <-done:
			break loop
		case <-deadline:
			cmd.Process.Signal(syscall.SIGQUIT)
			select {
			case <-done:
			case <-time.After(5 * time.Second):
				cmd.Process.Kill()
				<-done
			}
			errData, _ := os.ReadFile(outPath + ".err")
			dump := string(errData)
			if i := strings.Index(dump, "goroutine 1 gp="); i >= 0 {
				dump = dump[i:]
			}
			if len(dump) > 3000 {
				dump = dump[:3000]
			}
			err = fmt.Errorf("child watchdog after %v; main goroutine: %s", timeout, dump)
			break loop
		case <-tick.C:
			if killAfterAcks < 0 && !killed && len(args) > 1 && c02PartialTemp(childTmp, args[1], oldTemp) {
				// kill while a flush has part of its output on disk
				cmd.Process.Signal(syscall.SIGKILL)
				killed = true
				c.Obs("kills_with_partial_flush_output_on_disk", 1)
			}
			if killAfterAcks > 0 && !killed {
				data, _ := os.ReadFile(outPath)
				if strings.Count(string(data), "ACK ") >= killAfterAcks {
					time.Sleep(delay)
					cmd.Process.Signal(syscall.SIGKILL)
					killed = true
				}
			}
		}
	}
	outF.Close()
	errF.Close()
	data, _ := os.ReadFile(outPath)
	sc := bufio.NewScanner(strings.NewReader(string(data)))
	sc.Buffer(make([]byte, 1<<20), 1<<26)
	for sc.Scan() {
		lines = append(lines, sc.Text())
	}
	if ws, ok := cmd.ProcessState.Sys().(syscall.WaitStatus); ok && ws.Signaled() {
		died = true
	}
	if !died && cmd.ProcessState.ExitCode() != 0 && err == nil {
		errData, _ := os.ReadFile(outPath + ".err")
		tail := string(errData)
		if len(tail) > 1500 {
			tail = tail[len(tail)-1500:]
		}
		err = fmt.Errorf("child exited with %d: %s", cmd.ProcessState.ExitCode(), tail)
	}
	os.Remove(outPath)
	os.Remove(outPath + ".err")
	return lines, died, err
}

// occurrence schedule 1,2,3,5,8,13,...
func c02Occurrences(max int64) []int64 {
	var out []int64
	a, b := int64(1), int64(2)
	for a <= max {
		out = append(out, a)
		a, b = b, a+b
	}
	if len(out) == 0 || out[len(out)-1] != max {
		out = append(out, max)
	}
	return out
}

func runC02(c *fw.Ctx) {
	r := c.Rand
	dir := filepath.Join(c.Dir, "db")
	base := time.Now().Add(-2 * time.Hour).Truncate(time.Hour).Unix()
	flushMS := 2 + r.Intn(18)
	timerEnv := []string{"VERIF_TIMER_DIV=100"}
	perRound := c.Pick(120, 200)
	variant := "plain"
	switch c.Case % 6 {
	case 2:
		// well over WALCompressionSize (~1 MB) of acknowledged inserts per round that no flush has persisted
		variant = "slow-fat-table"
		timerEnv = append(timerEnv, "VERIF_C02_SLOWFAT=1")
		perRound = 450
	case 5:
		variant = "memory-pressure-arrays"
		timerEnv = append(timerEnv, "VERIF_C02_PRESSURE=1")
		perRound = 100
	}
	c.Obs("variant:"+variant, 1)

	// dry run on a scratch directory: which points exist and how often are they hit
	dryLines, _, err := c02RunChild(c, append(timerEnv, "VERIF_COUNTS=1"), 120*time.Second, 0, 0, "insert", filepath.Join(c.Dir, "dry"), "0", strconv.Itoa(perRound), strconv.Itoa(flushMS), strconv.FormatInt(base, 10))
	if err != nil {
		c.Inconclusive("dry run failed: %v", err)
		return
	}
	counts := map[string]int64{}
	for _, l := range dryLines {
		if strings.HasPrefix(l, "COUNTS ") {
			json.Unmarshal([]byte(l[7:]), &counts)
		}
	}
	var names []string
	for k, v := range counts {
		if !strings.Contains(k, "=") && v > 0 && !strings.HasPrefix(k, "iterate.") && !strings.HasPrefix(k, "follow.") {
			names = append(names, k)
		}
	}
	sort.Strings(names)
	if len(names) < 8 {
		c.Inconclusive("dry run reached only %d instrumented points: %v", len(names), names)
		return
	}
	// enumerate (point, occurrence) pairs; the case index selects where this case starts in the list
	type po struct {
		name string
		n    int64
	}
	var pairs []po
	for _, nm := range names {
		for _, n := range c02Occurrences(counts[nm]) {
			pairs = append(pairs, po{nm, n})
		}
	}
	c.Obs("max:crash_point_pairs_enumerable", int64(len(pairs)))

	nRounds := 4 + r.Intn(4)
	var rounds []*c02Round
	nextID := 0
	acked := map[int]bool{}
	inflight := map[int]bool{}
	attempted := map[int]bool{}
	nontrivial := false
	var log []string
	for ri := 0; ri < nRounds && !c.Violated(); ri++ {
		rd := &c02Round{startID: nextID, count: perRound, acked: map[int]bool{}, tried: map[int]bool{}}
		env := append([]string(nil), timerEnv...)
		killAcks, delay := 0, time.Duration(0)
		switch k := r.Intn(10); {
		case ri == nRounds-1 || k == 0:
			rd.kind = "clean"
		case k < 7:
			rd.kind = "named"
			p := pairs[(c.Case*5+ri*7+r.Intn(3))%len(pairs)]
			if ri == 0 {
				p = pairs[(c.Case*3)%len(pairs)]
			} else if r.Intn(4) == 0 {
				// deep inside the row loop of a flush (later rounds rewrite more and more rows)
				p = po{"flush.row", int64(30 + r.Intn(150*ri))}
			}
			rd.point, rd.n = p.name, p.n
			env = append(env, fmt.Sprintf("VERIF_CRASH=%s:%d", p.name, p.n))
		case (k == 7 || k == 8) && ri > 0:
			// SIGKILL as soon as a flush has part of its output on disk (a flush of more than 64 KB, i.e. of the table with 6 KB rows)
			rd.kind = "partial"
			killAcks = -1
		default:
			rd.kind = "async"
			rd.killAt = 1 + r.Intn(perRound-1)
			killAcks = rd.killAt
			delay = time.Duration(r.Intn(3000)) * time.Microsecond
		}
		lines, died, err := c02RunChild(c, env, 180*time.Second, killAcks, delay, "insert", dir, strconv.Itoa(nextID), strconv.Itoa(perRound), strconv.Itoa(flushMS), strconv.FormatInt(base, 10))
		if err != nil {
			c.Inconclusive("round %d child failed: %v", ri, err)
			return
		}
		rd.died = died
		for _, l := range lines {
			var id int
			if n, _ := fmt.Sscanf(l, "TRY %d", &id); n == 1 {
				rd.tried[id] = true
				attempted[id] = true
			} else if n, _ := fmt.Sscanf(l, "ACK %d", &id); n == 1 {
				rd.acked[id] = true
				acked[id] = true
			}
			rd.lastLine = l
		}
		for id := range rd.tried {
			if !rd.acked[id] {
				inflight[id] = true
			}
		}
		nextID += perRound
		rounds = append(rounds, rd)
		desc := fmt.Sprintf("round %d: %s", ri, rd.kind)
		if rd.kind == "named" {
			desc += fmt.Sprintf(" %s:%d", rd.point, rd.n)
			c.HashAdd(rd.point, rd.n)
			if died {
				c.Obs("kills_at_named_points", 1)
				c.Obs("crash_point:"+rd.point, 1)
				if strings.HasPrefix(rd.point, "flush.") || strings.HasPrefix(rd.point, "offsets.") || strings.HasPrefix(rd.point, "remove.") || rd.point == "rs.afterInsert" {
					nontrivial = true
				}
			} else {
				c.Obs("named_points_not_reached", 1)
			}
		}
		if rd.kind == "partial" {
			desc += " SIGKILL when a flush has part of its output on disk"
			c.HashAdd("partial", ri)
			if died {
				c.Obs("partial_output_kills", 1)
				nontrivial = true
			}
		}
		if rd.kind == "async" {
			desc += fmt.Sprintf(" SIGKILL after ack %d + %v", rd.killAt, delay)
			c.HashAdd("async", rd.killAt)
			if died {
				c.Obs("async_kills", 1)
				nontrivial = true
			}
		}
		desc += fmt.Sprintf(" -> died=%v, %d acked, last line %q", died, len(rd.acked), rd.lastLine)
		log = append(log, desc)
		c.Obs("rounds", 1)

		// restart + verify
		vlines, _, verr := c02RunChild(c, timerEnv, 480*time.Second, 0, 0, "verify", dir)
		for _, l := range vlines {
			if l == "NOTCAUGHTUP" {
				// bounded progress: the verifier's watchdog (300s) fired before exact quiescence
				c.Inconclusive("verifier did not reach quiescence within its watchdog after %s", desc)
				return
			}
		}
		if verr != nil {
			c.ViolateData("c02-restart-failed", map[string]interface{}{"history": log, "error": verr.Error()}, "after %s the database did not come back: %v", desc, verr)
			return
		}
		ok := false
		sums := map[string]map[string][2]float64{} // tag/table -> cell -> (sum, points)
		for _, l := range vlines {
			if l == "VERIFIED" {
				ok = true
			}
			if l == "NOTCAUGHTUP" {
				c.Inconclusive("verifier did not reach quiescence after %s", desc)
				return
			}
			if strings.HasPrefix(l, "QUERYERR") {
				c.ViolateData("c02-query-error", log, "after %s: %s", desc, l)
				return
			}
			f := strings.Fields(l)
			if len(f) == 6 && f[0] == "ROW" {
				key := f[1] + "/" + f[2]
				if sums[key] == nil {
					sums[key] = map[string][2]float64{}
				}
				s, _ := strconv.ParseFloat(f[4], 64)
				p, _ := strconv.ParseFloat(f[5], 64)
				prev := sums[key][f[3]]
				sums[key][f[3]] = [2]float64{prev[0] + s, prev[1] + p}
			}
		}
		if !ok {
			c.Inconclusive("verifier did not finish after %s: %v", desc, vlines)
			return
		}
		// decode and check the history
		for _, tag := range []string{"mem", "disk"} {
			for _, tbl := range []string{"t_all", "t_where", "t_both", "t_fat"} {
				mult := map[int]int{}
				for cell, sp := range sums[tag+"/"+tbl] {
					var cn int
					fmt.Sscanf(cell, "c%d", &cn)
					odd := -1
					if i := strings.Index(cell, "|"); i >= 0 && tbl == "t_both" {
						odd, _ = strconv.Atoi(cell[i+1:])
					}
					digits, twos, okd := c02Decode(sp[0])
					if !okd {
						c.ViolateData("c02-garbled-cell", log, "after %s: table %s (%s) cell %s holds %v, which is not a sum of ids", desc, tbl, tag, cell, sp[0])
						return
					}
					n := 0
					for _, j := range digits {
						mult[cn*30+j]++
						n++
					}
					for _, j := range twos {
						mult[cn*30+j] += 2
						n += 2
					}
					_ = odd
					if float64(n) != sp[1] && variant != "memory-pressure-arrays" {
						c.ViolateData("c02-points-disagree", log, "after %s: table %s (%s) cell %s: _points=%v but the sum decodes to %d ids", desc, tbl, tag, cell, sp[1], n)
						return
					}
				}
				for id := 0; id < nextID; id++ {
					relevant := tbl != "t_where" || id%2 == 1
					m := mult[id]
					switch {
					case !relevant:
						if m != 0 {
							c.ViolateData("c02-where-leak", log, "after %s: table %s (%s) contains id %d, which its WHERE rejects", desc, tbl, tag, id)
							return
						}
					case acked[id] && m != 1:
						sig := "c02-acknowledged-lost"
						if m > 1 {
							sig = "c02-acknowledged-duplicated"
						}
						c.ViolateData(sig, map[string]interface{}{"history": log}, "after %s: id %d was acknowledged before the kill but table %s (%s) reflects it %d times", desc, id, tbl, tag, m)
						return
					case !acked[id] && inflight[id] && m > 1:
						c.ViolateData("c02-inflight-duplicated", map[string]interface{}{"history": log}, "after %s: id %d was in flight at a kill and table %s (%s) reflects it %d times", desc, id, tbl, tag, m)
						return
					case !attempted[id] && m != 0:
						c.ViolateData("c02-phantom", map[string]interface{}{"history": log}, "after %s: id %d was never attempted but table %s (%s) reflects it", desc, id, tbl, tag)
						return
					}
				}
				for id := range mult {
					if id >= nextID {
						c.ViolateData("c02-phantom", map[string]interface{}{"history": log}, "after %s: table %s (%s) reflects id %d, which was never attempted", desc, tbl, tag, id)
						return
					}
				}
				c.Obs("table_states_decoded", 1)
			}
		}
	}
	c.Obs("ids_acknowledged", int64(len(acked)))
	c.Obs("ids_in_flight_at_a_kill", int64(len(inflight)))
	c.Nontrivial(nontrivial)
	c.Sample(map[string]interface{}{"variant": variant, "flush_latency_ms": flushMS, "instrumented_points": names, "history": log})
}

// c02Decode splits a cell sum into base-3 digits; digits equal to 2 are returned separately (duplicates).
func c02Decode(sum float64) (ones []int, twos []int, ok bool) {
	if sum < 0 || sum != math.Trunc(sum) || sum > 1e15 {
		return nil, nil, false
	}
	n := int64(sum)
	for j := 0; n > 0; j++ {
		switch n % 3 {
		case 1:
			ones = append(ones, j)
		case 2:
			twos = append(twos, j)
		}
		n /= 3
	}
	return ones, twos, true
}
