// vcheck: one binary, one sub-command per property. "run" is the parent that
// schedules cases over recycled worker processes; "worker" executes cases.
package main

import (
	"fmt"
	"os"
	"strconv"
	"strings"

	"verif/internal/fw"
)

func main() {
	if len(os.Args) < 2 {
		fmt.Println("usage: vcheck run <ID> <tier> [--replay f] | worker <ID> <tier> <idxs> <seeds> <out> | list")
		os.Exit(3)
	}
	switch os.Args[1] {
	case "list":
		for _, id := range fw.IDs() {
			fmt.Println(id)
		}
	case "run":
		if len(os.Args) < 4 {
			fmt.Println("usage: vcheck run <ID> <tier>")
			os.Exit(3)
		}
		os.Exit(fw.RunMain(os.Args[2], os.Args[3], os.Args[4:]))
	case "worker":
		if len(os.Args) < 7 {
			os.Exit(3)
		}
		var idxs []int
		var seeds []int64
		for _, s := range strings.Split(os.Args[4], ",") {
			n, _ := strconv.Atoi(s)
			idxs = append(idxs, n)
		}
		for _, s := range strings.Split(os.Args[5], ",") {
			n, _ := strconv.ParseInt(s, 10, 64)
			seeds = append(seeds, n)
		}
		os.Exit(fw.WorkerMain(os.Args[2], os.Args[3], idxs, seeds, os.Args[6], isRaceBuild))
	default:
		if !extraCommand(os.Args[1], os.Args[2:]) {
			fmt.Println("unknown command", os.Args[1])
			os.Exit(3)
		}
	}
}

// extraCommand dispatches child-process commands registered by individual checks.
var extraCommands = map[string]func(args []string) int{}

func extraCommand(name string, args []string) bool {
	f, ok := extraCommands[name]
	if !ok {
		return false
	}
	os.Exit(f(args))
	return true
}
