package main

// C19 — data-disclosing endpoints refuse callers without valid credentials.
// Access-control oracle over a recorded request/response log; disclosure is observed (rows,
// WAL points, rogue handler invoked), not inferred.

import (
	"bytes"
	"compress/gzip"
	"context"
	"encoding/json"
	"fmt"
	"io/ioutil"
	"net"
	"net/http"
	"net/http/httptest"
	"net/url"
	"strings"
	"sync"
	"sync/atomic"
	"time"

	"github.com/getlantern/wal"
	"github.com/getlantern/zenodb"
	"github.com/getlantern/zenodb/common"
	"github.com/getlantern/zenodb/core"
	"github.com/getlantern/zenodb/rpc"
	rpcserver "github.com/getlantern/zenodb/rpc/server"
	"github.com/getlantern/zenodb/web"
	"github.com/gorilla/mux"
	"github.com/gorilla/securecookie"

	"verif/internal/dbh"
	"verif/internal/fw"
	"verif/internal/gen"
)

func init() {
	fw.Register(&fw.Property{
		ID:         "C19",
		Level:      "exploration",
		Exhaustive: true,
		Rule: "case 0 = RPC matrix {password set/unset} x {no credential, wrong, prefix, extended, case-changed, right password} x {query, follow, remote-query handler registration} against real gRPC servers on loopback over real DBs; " +
			"case 1 = web matrix {OAuth set/unset} x {no credential, right/wrong/prefix static token, well-signed cookie with future/past expiry, cookie signed with other keys, garbage cookie} x {GitHub confirms / denies / fails} x {/run, /immediate, /async, /cached/<permalink>, /metrics}; " +
			"cases >=2 (thorough) = randomly mutated cookies, tokens and passwords; oracle: served <=> allowed by the statement; disclosure observed as rows / WAL points / handler invocation; " +
			"non-trivial = a request that must be refused although a sibling request with the right credential is served; distinct by (configuration, credential, endpoint)",
		Assumptions: []string{"an expired but well-signed cookie that GitHub re-confirms is don't-care (the code renews the session)", "the HTTP handler's GitHub client uses http.DefaultTransport, which the monitor replaces by a fake"},
		Cases: func(tier string) int {
			if tier == "quick" {
				return 2
			}
			return 40
		},
		Batch:            1,
		Workers:          4,
		PanicIsViolation: true,
		MinConclusive:    func(string) int { return 2 },
		Run:              runC19,
	})
}

func runC19(c *fw.Ctx) {
	switch {
	case c.Case == 0:
		c19RPC(c, false)
	case c.Case == 1:
		c19Web(c, false)
	case c.Case%2 == 0:
		c19RPC(c, true)
	default:
		c19Web(c, true)
	}
}

// ------------------------------------------------------------------------------------------
// RPC

type c19Server struct {
	db     *dbh.DB
	leader *dbh.DB
	addrDB string
	addrL  string
	stop   []func()
}

func c19Start(c *fw.Ctx, password string, tag string) *c19Server {
	s := &c19Server{}
	defs := []dbh.TableDef{{Name: "t", SQL: "SELECT SUM(v) AS v FROM inbound GROUP BY k, period(1h)", Retention: 1000 * time.Hour, Stream: "inbound"}}
	var err error
	s.db, err = dbh.Open(c.Dir+"/db-"+tag, defs, dbh.Opts{VirtualTime: true})
	if err != nil {
		c.Inconclusive("cannot open db: %v", err)
		return nil
	}
	s.leader, err = dbh.Open(c.Dir+"/leader-"+tag, defs, dbh.Opts{Extra: func(o *zenodb.DBOpts) {
		o.Passthrough = true
		o.NumPartitions = 1
		o.ID = 7
		o.ClusterQueryTimeout = 3 * time.Second
	}})
	if err != nil {
		c.Inconclusive("cannot open leader: %v", err)
		return nil
	}
	for i := 0; i < 5; i++ {
		ts := gen.Base.Add(time.Duration(i) * time.Minute)
		s.db.Insert("inbound", ts, map[string]interface{}{"k": fmt.Sprintf("secret-key-%d", i)}, map[string]interface{}{"v": float64(i + 1)})
		s.leader.Insert("inbound", time.Now().Add(-time.Hour), map[string]interface{}{"k": fmt.Sprintf("secret-key-%d", i)}, map[string]interface{}{"v": float64(i + 1)})
	}
	s.db.WaitCaughtUp(quiesceTimeout)
	for _, x := range []struct {
		db   *dbh.DB
		addr *string
	}{{s.db, &s.addrDB}, {s.leader, &s.addrL}} {
		l, err := net.Listen("tcp", "127.0.0.1:0")
		if err != nil {
			c.Inconclusive("cannot listen: %v", err)
			return nil
		}
		*x.addr = l.Addr().String()
		serve, stop := rpcserver.PrepareServer(x.db.DB, l, &rpcserver.Opts{ID: 7, Password: password})
		go serve()
		s.stop = append(s.stop, stop)
	}
	return s
}

func (s *c19Server) close() {
	for _, f := range s.stop {
		f()
	}
	s.db.Close()
	s.leader.Close()
}

type c19Obs struct {
	disclosed bool
	detail    string
	err       error
}

func c19Query(addr, cred string) c19Obs {
	cl, err := rpc.Dial(addr, &rpc.ClientOpts{Password: cred})
	if err != nil {
		return c19Obs{err: err}
	}
	defer cl.Close()
	ctx, cancel := context.WithTimeout(context.Background(), 10*time.Second)
	defer cancel()
	md, iterate, err := cl.Query(ctx, "SELECT * FROM t", true)
	if err != nil {
		return c19Obs{err: err}
	}
	o := c19Obs{}
	if md != nil && len(md.FieldNames) > 0 {
		o.disclosed = true
		o.detail = fmt.Sprintf("metadata with fields %v", md.FieldNames)
	}
	rows := 0
	_, err = iterate(func(row *core.FlatRow) (bool, error) {
		rows++
		return true, nil
	})
	if rows > 0 {
		o.disclosed = true
		o.detail += fmt.Sprintf(" and %d rows", rows)
	}
	o.err = err
	return o
}

func c19Follow(addr, cred string) c19Obs {
	cl, err := rpc.Dial(addr, &rpc.ClientOpts{Password: cred})
	if err != nil {
		return c19Obs{err: err}
	}
	defer cl.Close()
	ctx, cancel := context.WithTimeout(context.Background(), 8*time.Second)
	defer cancel()
	f := &common.Follow{
		FollowerID: common.FollowerID{Partition: 0, ID: 99},
		Stream:     "inbound",
		Partitions: map[string]*common.Partition{"": {Tables: []*common.PartitionTable{{Name: "t", Offsets: common.OffsetsBySource{}}}}},
	}
	_, next, err := cl.Follow(ctx, f)
	if err != nil {
		return c19Obs{err: err}
	}
	type pt struct {
		data   []byte
		offset wal.Offset
		err    error
	}
	ch := make(chan pt, 1)
	go func() {
		d, o, e := next()
		ch <- pt{d, o, e}
	}()
	select {
	case p := <-ch:
		if p.err != nil {
			return c19Obs{err: p.err}
		}
		return c19Obs{disclosed: len(p.data) > 0, detail: fmt.Sprintf("a WAL entry of %d bytes", len(p.data))}
	case <-ctx.Done():
		return c19Obs{err: fmt.Errorf("source info received but no WAL entry within the watchdog")}
	}
}

// c19RemoteQuery registers a rogue handler for partition 0 and then runs a leader query; disclosure
// = the rogue handler is invoked (it sees the SQL text and may inject rows).
func c19RemoteQuery(s *c19Server, cred string) c19Obs {
	cl, err := rpc.Dial(s.addrL, &rpc.ClientOpts{Password: cred})
	if err != nil {
		return c19Obs{err: err}
	}
	defer cl.Close()
	var invoked int32
	var seenSQL atomic.Value
	regErr := make(chan error, 1)
	ctx, cancel := context.WithTimeout(context.Background(), 10*time.Second)
	defer cancel()
	go func() {
		regErr <- cl.ProcessRemoteQuery(ctx, 0, func(ctx context.Context, sqlString string, isSubQuery bool, subQueryResults [][]interface{}, unflat bool, onFields core.OnFields, onRow core.OnRow, onFlatRow core.OnFlatRow) (interface{}, error) {
			atomic.StoreInt32(&invoked, 1)
			seenSQL.Store(sqlString)
			onFields(core.Fields{core.PointsField})
			return nil, nil
		}, 4*time.Second)
	}()
	// give the registration time to reach the leader (or to be refused)
	var early error
	select {
	case early = <-regErr:
	case <-time.After(700 * time.Millisecond):
	}
	qctx, qcancel := context.WithTimeout(context.Background(), 4*time.Second)
	defer qcancel()
	res := dbh.RunQuery(qctx, s.leader.DB, "SELECT * FROM t WHERE k = 'leader-secret-literal'", true, nil)
	_ = res
	o := c19Obs{err: early}
	if atomic.LoadInt32(&invoked) == 1 {
		o.disclosed = true
		o.detail = fmt.Sprintf("the handler registered with this credential was invoked by the leader and saw %q", seenSQL.Load())
	}
	if early == nil {
		select {
		case e := <-regErr:
			o.err = e
		case <-time.After(5 * time.Second):
		}
	}
	return o
}

func c19RPC(c *fw.Ctx, random bool) {
	r := c.Rand
	const pw = "s3cr3t-pw"
	checked, mustRefuse := 0, 0
	var log []string
	for _, configured := range []string{pw, ""} {
		if random && configured == "" {
			continue // nothing can be refused without a password; the full matrix (case 0) covers it
		}
		s := c19Start(c, configured, fmt.Sprintf("%v", configured != ""))
		if s == nil {
			return
		}
		creds := []string{"", "wrong", pw[:len(pw)-1], pw + "x", strings.ToUpper(pw), pw}
		if random {
			creds = nil
			for i := 0; i < 8; i++ {
				b := []byte(pw)
				switch r.Intn(4) {
				case 0:
					b[r.Intn(len(b))] ^= byte(1 << uint(r.Intn(7)))
				case 1:
					b = b[:r.Intn(len(b))]
				case 2:
					b = append(b, byte('a'+r.Intn(26)))
				default:
					b = []byte(fmt.Sprintf("%x", r.Int63()))
				}
				creds = append(creds, string(b))
			}
			creds = append(creds, pw)
		}
		for _, cred := range creds {
			allowed := configured == "" || cred == configured
			for _, op := range []string{"query", "follow", "remoteQuery"} {
				var o c19Obs
				switch op {
				case "query":
					o = c19Query(s.addrDB, cred)
				case "follow":
					o = c19Follow(s.addrL, cred)
				default:
					o = c19RemoteQuery(s, cred)
				}
				if allowed && !o.disclosed {
					// one retry: the monitor only needs to see that the right credential works
					time.Sleep(300 * time.Millisecond)
					switch op {
					case "query":
						o = c19Query(s.addrDB, cred)
					case "follow":
						o = c19Follow(s.addrL, cred)
					default:
						o = c19RemoteQuery(s, cred)
					}
				}
				checked++
				entry := fmt.Sprintf("password_configured=%v credential=%q op=%s -> disclosed=%v err=%v", configured != "", cred, op, o.disclosed, o.err != nil)
				log = append(log, entry)
				c.HashAdd(entry)
				if !allowed {
					mustRefuse++
					if o.disclosed {
						sig := "c19-rpc-" + op + "-not-refused"
						c.ViolateData(sig, entry, "RPC %s with password configured and credential %q (not the password) was served: %s", op, cred, o.detail)
					}
				} else if !o.disclosed {
					// not a property violation (the property is about refusing), but the monitor must see that
					// the right credential works, otherwise a refusal proves nothing
					c.Inconclusive("RPC %s with the right credential (configured=%v) was not served: %v", op, configured != "", o.err)
				}
			}
		}
		s.close()
	}
	c.Obs("rpc_requests", int64(checked))
	c.Obs("rpc_requests_that_must_be_refused", int64(mustRefuse))
	c.Nontrivial(mustRefuse > 0)
	c.Sample(map[string]interface{}{"kind": "rpc", "log": log})
}

// ------------------------------------------------------------------------------------------
// Web

type c19GitHub struct {
	mode  atomic.Value // "member" | "nonmember" | "error500" | "neterror"
	calls int32
}

func (g *c19GitHub) RoundTrip(req *http.Request) (*http.Response, error) {
	atomic.AddInt32(&g.calls, 1)
	mode, _ := g.mode.Load().(string)
	mk := func(code int, body string) *http.Response {
		return &http.Response{StatusCode: code, Status: fmt.Sprint(code), Body: ioutil.NopCloser(strings.NewReader(body)), Header: http.Header{}, Request: req}
	}
	switch mode {
	case "member":
		return mk(200, `[{"login":"theorg"}]`), nil
	case "nonmember":
		return mk(200, `[{"login":"otherorg"}]`), nil
	case "error500":
		return mk(500, `oops`), nil
	case "unauthorized":
		return mk(401, `{"message":"Bad credentials"}`), nil
	default:
		return nil, fmt.Errorf("simulated network error")
	}
}

var c19TransportMx sync.Mutex

func c19Web(c *fw.Ctx, random bool) {
	r := c.Rand
	c19TransportMx.Lock()
	defer c19TransportMx.Unlock()
	gh := &c19GitHub{}
	gh.mode.Store("member")
	origTransport := http.DefaultTransport
	http.DefaultTransport = gh
	defer func() { http.DefaultTransport = origTransport }()
	client := &http.Client{Transport: &http.Transport{}, CheckRedirect: func(*http.Request, []*http.Request) error { return http.ErrUseLastResponse }, Timeout: 60 * time.Second}

	hashKey := strings.Repeat("h", 64)
	blockKey := strings.Repeat("b", 32)
	const token = "static-token-123"
	checked, mustRefuse := 0, 0
	var log []string
	for _, oauth := range []bool{true, false} {
		defs := []dbh.TableDef{{Name: "t", SQL: "SELECT SUM(v) AS v FROM inbound GROUP BY k, period(1h)", Retention: 1000 * time.Hour, Stream: "inbound"}}
		db, err := dbh.Open(fmt.Sprintf("%s/web-%v", c.Dir, oauth), defs, dbh.Opts{VirtualTime: true})
		if err != nil {
			c.Inconclusive("cannot open db: %v", err)
			return
		}
		for i := 0; i < 5; i++ {
			db.Insert("inbound", gen.Base.Add(time.Duration(i)*time.Minute), map[string]interface{}{"k": fmt.Sprintf("secret-key-%d", i)}, map[string]interface{}{"v": float64(i + 1)})
		}
		db.WaitCaughtUp(quiesceTimeout)
		db.FlushAll() // the web API queries without the memstore
		router := mux.NewRouter()
		opts := &web.Opts{HashKey: hashKey, BlockKey: blockKey, CacheDir: fmt.Sprintf("%s/cache-%v", c.Dir, oauth), Password: token, QueryTimeout: 20 * time.Second}
		if oauth {
			opts.OAuthClientID, opts.OAuthClientSecret, opts.GitHubOrg = "cid", "csecret", "theorg"
		}
		stopWeb, err := web.Configure(db.DB, router, opts)
		if err != nil {
			c.Inconclusive("cannot configure web: %v", err)
			db.Close()
			return
		}
		srv := httptest.NewServer(router)
		sc := securecookie.New([]byte(hashKey), []byte(blockKey))
		other := securecookie.New([]byte(strings.Repeat("x", 64)), []byte(strings.Repeat("y", 32)))
		mint := func(s *securecookie.SecureCookie, exp time.Time) string {
			v, err := s.Encode("authcookie", &web.AuthData{AccessToken: "gh-access-token", Expiration: exp})
			if err != nil {
				panic(err)
			}
			return v
		}
		sqlQ := url.QueryEscape("SELECT * FROM t")
		// prime the cache with the right token so that /run and /async answer from the cache, and learn the permalink
		permalink := ""
		{
			req, _ := http.NewRequest("GET", srv.URL+"/immediate?"+sqlQ, nil)
			req.Header.Set("X-Zeno-Auth-Token", token)
			resp, err := client.Do(req)
			if err != nil {
				c.Inconclusive("priming request failed: %v", err)
				srv.Close()
				stopWeb()
				db.Close()
				return
			}
			body := c19Body(resp)
			var qr web.QueryResult
			json.Unmarshal(body, &qr)
			permalink = qr.Permalink
			if resp.StatusCode != 200 || permalink == "" || len(qr.Rows) == 0 {
				c.Inconclusive("priming request with the right token was not served (status %d, body %.200s): a refusal would prove nothing", resp.StatusCode, body)
				srv.Close()
				stopWeb()
				db.Close()
				return
			}
		}
		type cred struct {
			name   string
			header string
			cookie string
			kind   string // none token wrongtoken valid expired forged garbage
		}
		creds := []cred{
			{name: "no credential", kind: "none"},
			{name: "right static token", header: token, kind: "token"},
			{name: "wrong static token", header: "nope", kind: "wrongtoken"},
			{name: "prefix of static token", header: token[:len(token)-2], kind: "wrongtoken"},
			{name: "well-signed cookie, future expiry", cookie: mint(sc, time.Now().Add(30*time.Minute)), kind: "valid"},
			{name: "well-signed cookie, past expiry", cookie: mint(sc, time.Now().Add(-30*time.Minute)), kind: "expired"},
			{name: "well-signed cookie, long past expiry", cookie: mint(sc, time.Now().Add(-100*24*time.Hour)), kind: "expired"},
			{name: "cookie signed with other keys", cookie: mint(other, time.Now().Add(30*time.Minute)), kind: "forged"},
			{name: "garbage cookie", cookie: "Zm9vYmFy-not-a-cookie", kind: "garbage"},
		}
		if random {
			creds = nil
			good := mint(sc, time.Now().Add(30*time.Minute))
			for i := 0; i < 12; i++ {
				b := []byte(good)
				switch r.Intn(3) {
				case 0:
					b[r.Intn(len(b))] ^= byte(1 << uint(r.Intn(6)))
				case 1:
					b = b[:r.Intn(len(b))]
				default:
					j := r.Intn(len(b))
					b = append(b[:j], append([]byte{byte('A' + r.Intn(26))}, b[j:]...)...)
				}
				if string(b) == good {
					continue
				}
				creds = append(creds, cred{name: fmt.Sprintf("mutated cookie #%d", i), cookie: string(b), kind: "forged"})
			}
			for i := 0; i < 6; i++ {
				b := []byte(token)
				j := r.Intn(len(b))
				b[j] ^= byte(1 << uint(r.Intn(5)))
				if b[j] < 0x21 || b[j] > 0x7e {
					b[j] = 'Z'
				}
				if string(b) == token {
					continue
				}
				creds = append(creds, cred{name: fmt.Sprintf("mutated token #%d", i), header: string(b), kind: "wrongtoken"})
			}
			creds = append(creds, cred{name: "right static token", header: token, kind: "token"})
		}
		endpoints := []string{"/immediate?" + sqlQ, "/run?" + sqlQ, "/async?" + sqlQ, "/cached/" + permalink, "/metrics"}
		for _, ghMode := range []string{"member", "nonmember", "error500", "unauthorized", "neterror"} {
			gh.mode.Store(ghMode)
			for _, cr := range creds {
				if (cr.kind == "none" || cr.kind == "token" || cr.kind == "wrongtoken") && ghMode != "member" && ghMode != "neterror" {
					continue // GitHub is not consulted for these; two modes are enough
				}
				for _, ep := range endpoints {
					req, _ := http.NewRequest("GET", srv.URL+ep, nil)
					if cr.header != "" {
						req.Header.Set("X-Zeno-Auth-Token", cr.header)
					}
					if cr.cookie != "" {
						req.AddCookie(&http.Cookie{Name: "authcookie", Value: cr.cookie})
					}
					resp, err := client.Do(req)
					if err != nil {
						c.Inconclusive("request failed: %v", err)
						continue
					}
					body := c19Body(resp)
					served := resp.StatusCode == 200 && (bytes.Contains(body, []byte("secret-key")) || strings.HasPrefix(ep, "/metrics"))
					pending := resp.StatusCode == 202
					checked++
					entry := fmt.Sprintf("oauth=%v github=%s credential=%q endpoint=%s -> status=%d served=%v", oauth, ghMode, cr.name, strings.SplitN(ep, "?", 2)[0], resp.StatusCode, served)
					if len(log) < 400 {
						log = append(log, entry)
					}
					c.HashAdd(oauth, ghMode, cr.name, ep)
					var allowed, dontCare bool
					switch {
					case !oauth:
						allowed = true
					case cr.kind == "token" || cr.kind == "valid":
						allowed = true
					case cr.kind == "expired" && ghMode == "member":
						dontCare = true
					}
					if dontCare {
						c.Obs("web_requests_dont_care", 1)
						continue
					}
					if !allowed {
						mustRefuse++
						if served || pending {
							sig := "c19-web-" + cr.kind + "-served"
							c.ViolateData(sig, entry, "web request %s with OAuth configured and credential %q (GitHub: %s) was served (status %d) although it carries neither the static token nor a valid unexpired session", strings.SplitN(ep, "?", 2)[0], cr.name, ghMode, resp.StatusCode)
						}
					} else if !served && !pending {
						if cr.kind == "valid" && oauth {
							// a valid, unexpired session must be honoured; refusing it is not a disclosure, but it is what
							// the inverted expiry test of the pinned tree did when GitHub was unreachable
							c.ViolateData("c19-web-valid-session-refused", entry, "web request %s with a well-signed, unexpired session cookie (GitHub: %s) was refused with status %d", strings.SplitN(ep, "?", 2)[0], ghMode, resp.StatusCode)
						} else {
							c.Inconclusive("request that must be served was not: %s", entry)
						}
					}
				}
			}
		}
		srv.Close()
		stopWeb()
		db.Close()
	}
	c.Obs("web_requests", int64(checked))
	c.Obs("web_requests_that_must_be_refused", int64(mustRefuse))
	c.Nontrivial(mustRefuse > 0)
	if len(log) > 60 {
		log = append(log[:60], fmt.Sprintf("... %d more", len(log)-60))
	}
	c.Sample(map[string]interface{}{"kind": "web", "log": log})
}

func c19Body(resp *http.Response) []byte {
	defer resp.Body.Close()
	raw, _ := ioutil.ReadAll(resp.Body)
	if resp.Header.Get("Content-Encoding") == "gzip" || (len(raw) > 2 && raw[0] == 0x1f && raw[1] == 0x8b) {
		if zr, err := gzip.NewReader(bytes.NewReader(raw)); err == nil {
			if out, err := ioutil.ReadAll(zr); err == nil {
				return out
			}
		}
	}
	return raw
}
