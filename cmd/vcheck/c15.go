package main

// C15 — altering a table keeps the stored values of every field it retains.
// Reference aggregator with epochs: a field (identity = name + expression) accumulates exactly the
// accepted points processed while it was part of the table; the WHERE of the epoch in which a point
// was processed decides acceptance.

import (
	"fmt"
	"strings"
	"time"

	"verif/internal/dbh"
	"verif/internal/fw"
	"verif/internal/gen"
	"verif/internal/ref"
)

func init() {
	fw.Register(&fw.Property{
		ID:    "C15",
		Level: "exploration",
		Rule: "one case = one history on one table (real clock, timestamps 2-3h old, long retention) interleaving inserts, FlushAll, timer flushes, clean restarts (reopened with the latest schema) and schema applications " +
			"(field permutations, insertions, deletions incl. wide PERCENTILE fields, WHERE changes), each applied after exact quiescence; after every step SELECT * and random field subsets (memstore-inclusive; disk-only after a flush) are compared with the epoch reference: " +
			"retained fields keep their values, added fields only reflect points processed afterwards, a new WHERE only applies to later points; a field removed and re-added is don't-care; " +
			"non-trivial = >=2 alterations with a flush between them and >=1 query selecting a strict subset of fields; distinct by history hash",
		Assumptions: []string{"restarts need the real clock; all data stays far inside the retention", "values of PERCENTILE fields themselves are not judged (they act as wide neighbours)"},
		Cases: func(tier string) int {
			if tier == "quick" {
				return 30
			}
			return 800
		},
		Batch:            5,
		Workers:          8,
		RaceEvery:        5,
		PanicIsViolation: true,
		Run:              runC15,
	})
}

type c15Field struct {
	def     ref.FieldDef
	tainted bool // removed and re-added: don't-care
	live    bool
}

func (f *c15Field) ident() string { return f.def.SQL() }

func runC15(c *fw.Ctx) {
	r := c.Rand
	res := gen.Resolutions[r.Intn(len(gen.Resolutions))]
	base := time.Now().Add(-3 * time.Hour).Truncate(time.Hour)
	span := res * time.Duration(3+r.Intn(8))
	retention := 48 * time.Hour
	groupBy := []string{"s", "n"}
	// pool of field definitions to draw from
	pool := gen.Fields(r, 5)
	for tries := 0; len(pool) < 4 && tries < 5; tries++ {
		pool = append(pool, gen.Fields(r, 3)...)
		seen := map[string]bool{}
		var uniq []ref.FieldDef
		for _, f := range pool {
			if !seen[f.Name] {
				seen[f.Name] = true
				uniq = append(uniq, f)
			}
		}
		pool = uniq
	}
	// One expression under two field names, added at different times, is outside what this monitor
	// judges: grouped queries resolve a selected field to the first stored column with the same
	// expression text (see DESIGN.md, C06/C15 notes), so the second name shows the first column's
	// longer history although its own stored values are intact. Keep expressions distinct.
	{
		seenExpr := map[string]bool{}
		var uniq []ref.FieldDef
		for _, f := range pool {
			e := strings.SplitN(f.SQL(), " AS ", 2)[0]
			if f.Kind == "bare" {
				e = "SUM(" + f.A + ")"
			}
			if f.Kind == "wavg" || f.Kind == "avg" {
				e = "AVG(" + f.A + ")" // AVG and WAVG print alike inside zenodb
			}
			if !seenExpr[e] {
				seenExpr[e] = true
				uniq = append(uniq, f)
			}
		}
		pool = uniq
	}
	for i := range pool {
		pool[i].Name = fmt.Sprintf("p%d_%s", i, pool[i].Kind)
		if pool[i].Kind == "bare" {
			pool[i].Kind = "sum"
		}
	}
	pool = append(pool, ref.FieldDef{Kind: "raw", Name: "wide1", Raw: "PERCENTILE(x, 90, -10, 60, 1)"})
	pool = append(pool, ref.FieldDef{Kind: "raw", Name: "wide2", Raw: "PERCENTILE(y, 50, -10, 60, 0)"})
	fields := map[string]*c15Field{}
	var order []string // current field order (names)
	everLive := map[string]string{}
	for i := range pool {
		fields[pool[i].Name] = &c15Field{def: pool[i]}
	}
	perm := r.Perm(len(pool))
	for _, i := range perm[:2+r.Intn(len(pool)-2)] {
		order = append(order, pool[i].Name)
		fields[pool[i].Name].live = true
		everLive[pool[i].Name] = fields[pool[i].Name].ident()
	}
	var where *ref.Pred
	if r.Intn(2) == 0 {
		where = gen.Pred(r, 1)
	}
	specFor := func() ref.TableSpec {
		t := ref.TableSpec{Name: "t", Stream: "inbound", Res: res, GroupBy: groupBy, Where: where}
		for _, n := range order {
			t.Fields = append(t.Fields, fields[n].def)
		}
		return t
	}
	maxFlush := time.Duration(0)
	if r.Intn(3) == 0 {
		maxFlush = time.Duration(2+r.Intn(15)) * time.Millisecond
	}
	defFor := func() []dbh.TableDef {
		t := specFor()
		return []dbh.TableDef{{Name: "t", SQL: t.SQL(), Retention: retention, Stream: "inbound", MaxFlush: maxFlush}}
	}
	db, err := dbh.Open(c.Dir, defFor(), dbh.Opts{})
	if err != nil {
		c.Violate("open", "cannot open %v: %v", defFor()[0].SQL, err)
		return
	}
	defer func() { db.Close() }()

	// reference state: per cell, per field identity an accumulator, plus the points count
	type cellRef struct {
		ts     int64
		key    string
		points int
		ids    []int
		accs   map[string]*ref.Acc
	}
	cells := map[string]*cellRef{}
	nextID := 0
	alterations, flushesBetween, subsetQueries := 0, 0, 0
	flushedSinceAlter := false
	var history []string
	note := func(f string, a ...interface{}) {
		if len(history) < 60 {
			history = append(history, fmt.Sprintf(f, a...))
		}
	}
	rejectedOnly := false
	insert := func() bool {
		p := ref.Point{ID: nextID, TS: base.Add(time.Duration(r.Int63n(int64(span)))), Dims: gen.Dims(r), Vals: gen.Vals(r)}
		if rejectedOnly && where != nil {
			// a batch that the WHERE currently in force rejects entirely (only offsets advance)
			for try := 0; try < 30; try++ {
				if in, ok := where.Eval(p.Dims); ok && !in {
					break
				}
				p.Dims = gen.Dims(r)
			}
		}
		nextID++
		if err := insertPoint(db, "inbound", &p); err != nil {
			c.Violate("insert-error", "%v", err)
			return false
		}
		if where != nil {
			in, ok := where.Eval(p.Dims)
			if !ok || !in {
				return true
			}
		}
		vals := p.Numeric()
		if len(vals) == 0 {
			return true
		}
		key := ref.KeyOf(p.Dims, groupBy)
		ck := ref.CanonKey(key)
		ts := ref.CeilTime(p.TS, res).UnixNano()
		id := fmt.Sprintf("%d|%s", ts, ck)
		cr := cells[id]
		if cr == nil {
			cr = &cellRef{ts: ts, key: ck, accs: map[string]*ref.Acc{}}
			cells[id] = cr
		}
		cr.points++
		cr.ids = append(cr.ids, p.ID)
		for _, n := range order {
			f := fields[n]
			if f.def.Kind == "raw" {
				continue
			}
			a := cr.accs[f.ident()]
			if a == nil {
				a = &ref.Acc{}
				cr.accs[f.ident()] = a
			}
			a.Add(&f.def, vals, p.Dims)
		}
		return true
	}
	verify := func(step int, afterFlush bool) bool {
		if !db.WaitCaughtUp(quiesceTimeout) {
			c.Inconclusive("ingestion did not catch up")
			return false
		}
		data := map[string]interface{}{"table_now": defFor()[0].SQL, "step": step, "history": history}
		modes := []bool{true}
		if afterFlush {
			modes = append(modes, false)
		}
		for _, mem := range modes {
			// SELECT * and a random strict subset of the current fields
			var subset []string
			for _, n := range order {
				if r.Intn(2) == 0 {
					subset = append(subset, n)
				}
			}
			queries := []string{"SELECT * FROM t"}
			if len(subset) > 0 && len(subset) < len(order) {
				queries = append(queries, "SELECT _points, "+strings.Join(subset, ", ")+" FROM t GROUP BY "+strings.Join(groupBy, ", "))
				subsetQueries++
			}
			for _, q := range queries {
				resq := db.Query(q, mem)
				if resq.Failed() {
					c.ViolateData("c15-query-error", data, "%q failed: %s", q, resq.ErrString())
					return false
				}
				got, dup := resq.Index()
				if dup != "" {
					c.ViolateData("c15-duplicate-row", data, "%q returned row %s twice", q, dup)
					return false
				}
				pi := resq.Field("_points")
				for id, cr := range cells {
					row, ok := got[id]
					if !ok {
						c.ViolateData("c15-missing-row", data, "step %d (includeMemStore=%v) %q lacks row %s into which points %v were accepted", step, mem, q, id, cr.ids)
						return false
					}
					if row.Vals[pi] != float64(cr.points) {
						c.ViolateData("c15-points", data, "step %d (includeMemStore=%v) %q row %s: _points=%v, reference %d (ids %v)", step, mem, q, id, row.Vals[pi], cr.points, cr.ids)
						return false
					}
					for fi, name := range resq.Fields {
						f := fields[name]
						if f == nil || f.def.Kind == "raw" || f.tainted {
							continue
						}
						a := cr.accs[f.ident()]
						want, dc := 0.0, false
						if a != nil {
							want, _, dc = a.Value(&f.def)
						} else {
							// the field was added after every point of this cell: it must be empty
							switch f.def.Kind {
							case "min", "max", "avg", "avgbounded", "wavg", "muldivcount":
								dc = false
							}
						}
						if dc {
							continue
						}
						c.Obs("field_values_compared", 1)
						if !ref.FloatEq(row.Vals[fi], want, 1e-9) {
							c.ViolateData("c15-value", data, "step %d (includeMemStore=%v) %q row %s: field %s (%s) = %v, but the points processed while that field was part of the table (and passing the WHERE in force then) give %v", step, mem, q, id, name, f.def.SQL(), row.Vals[fi], want)
							return false
						}
					}
				}
				for id, row := range got {
					if _, ok := cells[id]; !ok {
						c.ViolateData("c15-extra-row", data, "step %d (includeMemStore=%v) %q returns row %s %v that no accepted point accounts for (WHERE changes only apply to later points)", step, mem, q, id, row.Vals)
						return false
					}
				}
				c.Obs("result_checks", 1)
			}
		}
		return true
	}

	steps := c.Pick(25, 60)
	for step := 0; step < steps && !c.Violated(); step++ {
		switch k := r.Intn(21); {
		case k == 20 && where != nil:
			// scripted sequence: flush; a batch the WHERE rejects entirely (only offsets advance); alter
			// fields and WHERE so that those points would now pass; clean restart; nothing may change
			if !db.WaitCaughtUp(quiesceTimeout) {
				c.Inconclusive("no quiescence")
				return
			}
			db.FlushAll()
			rejectedOnly = true
			for i := 0; i < 3+r.Intn(6); i++ {
				if !insert() {
					return
				}
			}
			rejectedOnly = false
			if !db.WaitCaughtUp(quiesceTimeout) {
				c.Inconclusive("no quiescence")
				return
			}
			r.Shuffle(len(order), func(i, j int) { order[i], order[j] = order[j], order[i] })
			where = nil
			if err := db.Alter(defFor()); err != nil {
				c.Violate("c15-alter-error", "applying schema %q failed: %v", defFor()[0].SQL, err)
				return
			}
			alterations++
			db.Tables = defFor()
			if err := db.Reopen(); err != nil {
				c.Violate("c15-reopen", "reopen failed: %v", err)
				return
			}
			flushedSinceAlter = true
			note("step %d: flush; rejected-only batch; permute fields + drop WHERE; clean restart", step)
			c.Obs("scripted_where_sequences", 1)
			if !verify(step, true) {
				return
			}
		case k < 9:
			n := 1 + r.Intn(12)
			rejectedOnly = r.Intn(4) == 0
			for i := 0; i < n; i++ {
				if !insert() {
					return
				}
			}
			note("step %d: %d inserts (all rejected by the WHERE: %v)", step, n, rejectedOnly && where != nil)
			rejectedOnly = false
			if r.Intn(3) == 0 && !verify(step, false) {
				return
			}
		case k < 12:
			if !db.WaitCaughtUp(quiesceTimeout) {
				c.Inconclusive("no quiescence")
				return
			}
			db.FlushAll()
			flushedSinceAlter = true
			note("step %d: FlushAll", step)
			if !verify(step, true) {
				return
			}
		case k < 14:
			if !db.WaitCaughtUp(quiesceTimeout) {
				c.Inconclusive("no quiescence")
				return
			}
			db.Tables = defFor()
			if err := db.Reopen(); err != nil {
				c.Violate("c15-reopen", "reopen with schema %q failed: %v", defFor()[0].SQL, err)
				return
			}
			flushedSinceAlter = true
			note("step %d: clean restart", step)
			if !verify(step, true) {
				return
			}
		default:
			// schema application, after exact quiescence
			if !db.WaitCaughtUp(quiesceTimeout) {
				c.Inconclusive("no quiescence")
				return
			}
			what := ""
			switch r.Intn(6) {
			case 5: // fields and WHERE at once
				r.Shuffle(len(order), func(i, j int) { order[i], order[j] = order[j], order[i] })
				if len(order) > 2 {
					n := order[len(order)-1]
					fields[n].live = false
					order = order[:len(order)-1]
				}
				if where == nil || r.Intn(2) == 0 {
					where = gen.Pred(r, 1)
				} else {
					where = nil
				}
				what = "change fields and WHERE"
			case 0: // permutation
				r.Shuffle(len(order), func(i, j int) { order[i], order[j] = order[j], order[i] })
				what = "permute fields"
			case 1: // insertion
				var cands []string
				for n, f := range fields {
					if !f.live {
						cands = append(cands, n)
					}
				}
				if len(cands) == 0 {
					continue
				}
				sortStrings(cands)
				n := cands[r.Intn(len(cands))]
				f := fields[n]
				if _, was := everLive[n]; was {
					f.tainted = true
				}
				everLive[n] = f.ident()
				f.live = true
				pos := r.Intn(len(order) + 1)
				order = append(order[:pos], append([]string{n}, order[pos:]...)...)
				what = "add field " + n
			case 2: // deletion
				if len(order) <= 1 {
					continue
				}
				pos := r.Intn(len(order))
				n := order[pos]
				fields[n].live = false
				order = append(order[:pos], order[pos+1:]...)
				what = "remove field " + n
			case 3: // where change
				if r.Intn(3) == 0 {
					where = nil
				} else {
					where = gen.Pred(r, 1)
				}
				what = "change WHERE"
			default: // several at once
				r.Shuffle(len(order), func(i, j int) { order[i], order[j] = order[j], order[i] })
				if len(order) > 2 {
					n := order[0]
					fields[n].live = false
					order = order[1:]
				}
				what = "permute and remove"
			}
			if err := db.Alter(defFor()); err != nil {
				c.Violate("c15-alter-error", "applying schema %q failed: %v", defFor()[0].SQL, err)
				return
			}
			alterations++
			if flushedSinceAlter {
				flushesBetween++
			}
			flushedSinceAlter = false
			note("step %d: %s -> %s", step, what, defFor()[0].SQL)
			if !verify(step, false) {
				return
			}
			if r.Intn(3) == 0 {
				// clean restart right after the alteration, before any further point
				db.Tables = defFor()
				if err := db.Reopen(); err != nil {
					c.Violate("c15-reopen", "reopen with schema %q failed: %v", defFor()[0].SQL, err)
					return
				}
				flushedSinceAlter = true
				note("step %d: clean restart right after the alteration", step)
				if !verify(step, true) {
					return
				}
			}
		}
	}
	if !c.Violated() {
		db.WaitCaughtUp(quiesceTimeout)
		db.FlushAll()
		verify(steps, true)
	}
	c.HashAdd(history)
	c.Obs("alterations", int64(alterations))
	c.Obs("points", int64(nextID))
	c.Nontrivial(alterations >= 2 && flushesBetween >= 1 && subsetQueries >= 1)
	c.Sample(map[string]interface{}{"final_table": defFor()[0].SQL, "alterations": alterations, "history_head": history})
}

func sortStrings(s []string) {
	for i := 1; i < len(s); i++ {
		for j := i; j > 0 && s[j] < s[j-1]; j-- {
			s[j], s[j-1] = s[j-1], s[j]
		}
	}
}
