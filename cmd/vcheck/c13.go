package main

// C13 — incomplete results are never presented as complete.
// Every execution is logged as (rows delivered, error, stats, HTTP status) next to the ground truth
// from an unfaulted run; a strict subset delivered together with a "success" signal is a violation.

import (
	"context"
	"encoding/json"
	"fmt"
	"net"
	"net/http"
	"net/http/httptest"
	"net/url"
	"strings"
	"sync/atomic"
	"time"

	"github.com/getlantern/bytemap"
	"github.com/getlantern/zenodb"
	"github.com/getlantern/zenodb/common"
	"github.com/getlantern/zenodb/core"
	"github.com/getlantern/zenodb/rpc"
	rpcserver "github.com/getlantern/zenodb/rpc/server"
	"github.com/getlantern/zenodb/web"
	"github.com/gorilla/mux"

	"verif/internal/cluster"
	"verif/internal/dbh"
	"verif/internal/fw"
	"verif/internal/gen"
)

func init() {
	fw.Register(&fw.Property{
		ID:    "C13",
		Level: "fault_enumeration",
		Rule: "case kinds: (a) embedded API — generated queries (operators in every position: flatten, group, sort, offset, limit, having, subquery filter) on memory/disk/mixed datasets, with the deadline already expired, " +
			"forced past at a hook point before the scan (iterate.afterCopy / iterate.beforeScan) or inside the consumer callback at row k (the callback blocks until the deadline has passed: the decision is logical, not timed), and a memory cap; " +
			"(c) HTTP API with small QueryTimeout / MaxResponseBytes through /immediate and then /cached/<permalink>; (d) rpc client query with a deadline; (b) cluster: real server nodes (partitions without handler / failing / slow; followers restarted with a memory cap so that their scans fail after rows were sent; HTTP response cap on the leader). " +
			"oracle: delivered rows a strict sub-multiset of the unfaulted result AND success signal (nil error / HTTP 200 / all partitions successful) => violation; non-trivial = the fault actually cut rows; distinct by (query, fault point)",
		Assumptions: []string{"a complete result with an error, or an incomplete one with an error, are both fine", "data is quiescent"},
		Cases: func(tier string) int {
			if tier == "quick" {
				return 18
			}
			return 300
		},
		Batch:   4,
		Workers: 8,
		// no race-build share: the web cache's boltdb (dependency) trips checkptr under -race
		PanicIsViolation: true,
		BenignCrash:      cluster.StartupRace,
		Env:              []string{"VERIF_TIMER_DIV=10"},
		Run:              runC13,
	})
}

func runC13(c *fw.Ctx) {
	switch c.Case % 6 {
	case 0, 1:
		c13Embedded(c)
	case 2:
		c13HTTP(c)
	case 3:
		c13RPC(c)
	case 4:
		c13Cluster(c)
	default:
		c13ClusterOOM(c)
	}
}

// c13ClusterOOM: followers run with a memory cap so small that a follower-side scan of more than 1000
// rows stops with "out of memory" after it has already sent fields and rows; the leader must not
// present what it got as a complete result.
func c13ClusterOOM(c *fw.Ctx) {
	r := c.Rand
	N := 1 + r.Intn(2)
	tables := []cluster.TableDef{
		{Name: "t", SQL: "SELECT SUM(v) AS v FROM inbound GROUP BY k, period(1h)", Retention: 48 * time.Hour, MaxFlush: 40 * time.Millisecond, PartitionBy: []string{"k"}},
		// a table with a handful of keys: its scans never reach the 1000-row memory check, so it tells
		// when the capped followers are registered with the leader again
		{Name: "small", SQL: "SELECT SUM(v) AS v FROM inbound GROUP BY m, period(1h)", Retention: 48 * time.Hour, PartitionBy: []string{"m"}},
	}
	// followers run as child processes: they are filled without a memory cap (with the cap every insert
	// forces a GC and a flush), stopped cleanly, and restarted with a cap so small that any scan of more
	// than 1000 rows stops with "out of memory" after fields and rows have already been sent. A capped
	// follower cannot be closed (DB.Close -> flush -> shouldSort deadlocks on tablesMutex) and is killed
	// at the end of the case.
	cl, err := cluster.New(cluster.Config{Dir: c.Dir + "/cluster", Tables: tables, NumLeaders: 1, NumPartitions: N, Redundancy: 1, QueryTimeout: 60 * time.Second,
		ProcFollowers: true, NodeBin: fw.BinDir() + "/vcheck"})
	if err != nil {
		c.Inconclusive("cluster: %v", err)
		return
	}
	defer cl.StopAll()
	if err := cl.StartAll(); err != nil {
		c.Inconclusive("cluster start: %v", err)
		return
	}
	nKeys := 1300*N + r.Intn(500)
	base := time.Now().Add(-2 * time.Hour).Truncate(time.Hour)
	for i := 0; i < nKeys; i++ {
		if err := cl.Leaders[0].DB.Insert("inbound", base.Add(time.Duration(i%3000)*time.Second), map[string]interface{}{"k": fmt.Sprintf("key%06d", i), "m": i % 7}, map[string]interface{}{"v": 1.0}); err != nil {
			c.Inconclusive("insert: %v", err)
			return
		}
	}
	// convergence: the followers together hold nKeys keys
	// (disk-only: the web handler queries without the memstore, so everything has to be flushed)
	count := func() int {
		total := 0.0
		for _, f := range cl.AllFollowers() {
			res := f.Query(ctxBackground(), "SELECT _points FROM t GROUP BY _", false)
			for i := range res.Rows {
				total += res.Rows[i].Vals[0]
			}
		}
		return int(total)
	}
	deadline := time.Now().Add(180 * time.Second)
	for count() != nKeys {
		if time.Now().After(deadline) {
			c.Inconclusive("followers hold %v of %d keys after 180s", count(), nKeys)
			return
		}
		time.Sleep(200 * time.Millisecond)
	}
	q := "SELECT * FROM t"
	truth := dbh.RunQuery(ctxBackground(), cl.Leaders[0].DB, q, true, nil)
	if truth.Failed() || len(truth.Rows) != nKeys {
		c.Inconclusive("uncapped cluster returns %d of %d rows (%s)", len(truth.Rows), nKeys, truth.ErrString())
		return
	}
	// the leader's answers served over HTTP with a response size cap: the leader-side consumer stops the
	// cluster query mid-stream, which must surface as an HTTP error, never as a cached 200
	httpCut, httpLog := c13HTTPVariants(c, cl.Leaders[0].DB, nKeys, []int{0, 2}, "cluster leader: ")
	if c.Violated() {
		return
	}
	if httpCut > 0 {
		c.Obs("cluster_http_truncated", int64(httpCut))
	}
	// restart the followers with the cap
	for _, f := range cl.AllFollowers() {
		f.Stop()
	}
	cl.Cfg.FollowerMaxMemory = 1e-12
	for _, f := range cl.AllFollowers() {
		if err := f.Start(); err != nil {
			c.Inconclusive("restart with memory cap: %v", err)
			return
		}
	}
	deadline = time.Now().Add(120 * time.Second)
	for {
		res := dbh.RunQuery(ctxBackground(), cl.Leaders[0].DB, "SELECT * FROM small", true, nil)
		st, _ := res.Stats.(*common.QueryStats)
		if !res.Failed() && st != nil && st.NumSuccessfulPartitions == N && len(st.MissingPartitions) == 0 && len(res.Rows) >= 7 {
			break
		}
		if time.Now().After(deadline) {
			c.Inconclusive("capped followers did not register with the leader within 120s (%s; %d rows; stats %+v)", res.ErrString(), len(res.Rows), st)
			return
		}
		time.Sleep(200 * time.Millisecond)
	}
	var log []string
	for _, q := range []string{"SELECT * FROM t", "SELECT v FROM t ORDER BY v", "SELECT v, _points FROM t GROUP BY k", "SELECT * FROM t LIMIT 100000"} {
		ctx, cancel := context.WithTimeout(context.Background(), 60*time.Second)
		got := dbh.RunQuery(ctx, cl.Leaders[0].DB, q, true, nil)
		cancel()
		stats, _ := got.Stats.(*common.QueryStats)
		flagged := got.Failed() || (stats != nil && (len(stats.MissingPartitions) > 0 || stats.NumSuccessfulPartitions < stats.NumPartitions))
		c.Obs("cluster_oom_executions", 1)
		c.HashAdd("oom", N, nKeys, q)
		entry := fmt.Sprintf("followers with a tiny memory cap: %q -> %d of %d rows, err=%q, stats=%+v", q, len(got.Rows), nKeys, got.ErrString(), stats)
		log = append(log, entry)
		if len(got.Rows) < nKeys {
			c.Nontrivial(true)
			c.Obs("cluster_oom_truncated", 1)
			if !flagged {
				c.ViolateData("c13-cluster-truncated-without-signal", entry, "cluster query %q whose follower-side scans stop with out-of-memory delivered %d of %d rows, nil error, and statistics that list no missing partition (%+v)", q, len(got.Rows), nKeys, stats)
			}
		}
	}
	c.Sample(map[string]interface{}{"kind": "cluster-oom", "partitions": N, "keys": nKeys, "log": append(httpLog, log...)})
}

// c13Cluster: partitions made unavailable (all followers of a partition stopped), or failing mid-scan
// (deadline forced past inside one follower's scan), on a real in-process cluster; a leader query that
// returns fewer rows than the ground truth must say so (error, or missing partitions / successful < total).
func c13Cluster(c *fw.Ctx) {
	r := c.Rand
	e := c10Setup(c, false)
	if e == nil {
		return
	}
	defer e.close()
	if e.N < 2 {
		e.N = e.N // single partition clusters are still useful for the mid-scan failure
	}
	base := time.Now().Add(-4 * time.Hour).Truncate(time.Hour)
	span := e.specs[0].Res * time.Duration(3+r.Intn(6))
	n := 120 + r.Intn(150)
	e.points = gen.Points(r, n, span, e.specs[0].Res)
	shift := base.Sub(gen.Base)
	for i := range e.points {
		e.points[i].TS = e.points[i].TS.Add(shift)
		if err := e.insertBoth(i, &e.points[i]); err != nil {
			c.Inconclusive("insert failed: %v", err)
			return
		}
	}
	want := e.barriers(c, 0, base.Add(span))
	if want == nil {
		return
	}
	if ok, why := e.waitBarriers(want, 120*time.Second); !ok {
		c.Inconclusive("no convergence: %s", why)
		return
	}
	tbl := e.specs[0].Name
	queries := []string{"SELECT * FROM " + tbl, "SELECT _points FROM " + tbl + " GROUP BY s", "SELECT _points FROM " + tbl + " GROUP BY _ ORDER BY _points"}
	truth := map[string]*dbh.Result{}
	for _, q := range queries {
		truth[q] = dbh.RunQuery(ctxBackground(), e.cl.Leaders[0].DB, q, true, nil)
		if truth[q].Failed() {
			c.Inconclusive("unfaulted cluster query failed: %s", truth[q].ErrString())
			return
		}
	}
	cut := 0
	var log []string
	judge := func(fault, q string, got *dbh.Result) {
		c.Obs("cluster_executions", 1)
		c.HashAdd(fault, q)
		stats, _ := got.Stats.(*common.QueryStats)
		flagged := got.Failed() || (stats != nil && (len(stats.MissingPartitions) > 0 || stats.NumSuccessfulPartitions < stats.NumPartitions))
		log = append(log, fmt.Sprintf("%s: %q -> %d of %d rows, err=%q, stats=%+v", fault, q, len(got.Rows), len(truth[q].Rows), got.ErrString(), stats))
		if len(got.Rows) < len(truth[q].Rows) {
			cut++
			if !flagged {
				c.ViolateData("c13-cluster-truncated-without-signal", map[string]interface{}{"fault": fault, "sql": q, "stats": fmt.Sprintf("%+v", stats)},
					"cluster query %q with %s delivered %d of %d rows, nil error, and statistics that list no missing partition (%+v)", q, fault, len(got.Rows), len(truth[q].Rows), stats)
			}
		}
	}
	// (1) one follower's scan fails mid-way: its deadline is forced past inside the scan
	for _, q := range queries {
		deadline := time.Now().Add(1500 * time.Millisecond)
		ctx, cancel := context.WithDeadline(context.Background(), deadline)
		var armed int32 = 1
		zenodb.VerifSetHandler(func(name string, n int64) {
			if name == "iterate.beforeScan" && atomic.CompareAndSwapInt32(&armed, 1, 0) {
				// the followers get half of the remaining time as their deadline
				time.Sleep(900 * time.Millisecond)
			}
		})
		got := dbh.RunQuery(ctx, e.cl.Leaders[0].DB, q, true, nil)
		zenodb.VerifSetHandler(nil)
		cancel()
		judge("one follower scan running past its deadline", q, got)
		if c.Violated() {
			return
		}
	}
	// (1b) the consumer is the slow part: inside its callback at the second row it waits until the deadline has
	// passed, while the followers have long delivered everything into the leader's buffer
	for _, q := range queries {
		deadline := time.Now().Add(1200 * time.Millisecond)
		ctx, cancel := context.WithDeadline(context.Background(), deadline)
		got := dbh.RunQuery(ctx, e.cl.Leaders[0].DB, q, true, func(i int, row *dbh.Row) (bool, error) {
			if i == 1 {
				for !time.Now().After(deadline.Add(50 * time.Millisecond)) {
					time.Sleep(5 * time.Millisecond)
				}
			}
			return true, nil
		})
		cancel()
		judge("consumer waits past the deadline at row 1 (rows buffered at the leader)", q, got)
		if c.Violated() {
			return
		}
	}
	// (2) a whole partition without live handler
	if e.N >= 2 {
		p := r.Intn(e.N)
		for _, f := range e.cl.Followers[p] {
			f.Stop()
		}
		time.Sleep(300 * time.Millisecond)
		for _, q := range queries {
			ctx, cancel := context.WithTimeout(context.Background(), 20*time.Second)
			got := dbh.RunQuery(ctx, e.cl.Leaders[0].DB, q, true, nil)
			cancel()
			judge(fmt.Sprintf("all followers of partition %d stopped", p), q, got)
			if c.Violated() {
				return
			}
		}
	}
	c.Nontrivial(cut > 0)
	c.Sample(map[string]interface{}{"kind": "cluster", "partitions": e.N, "log": log})
}

type c13Fault struct {
	kind  string // expired | hook | row | memcap
	point string
	row   int
}

func (f c13Fault) String() string {
	switch f.kind {
	case "hook":
		return "deadline forced past at " + f.point
	case "row":
		return fmt.Sprintf("deadline forced past inside the consumer callback at row %d", f.row)
	}
	return f.kind
}

func c13Embedded(c *fw.Ctx) {
	r := c.Rand
	d := buildDataset(c, dsOpts{minPoints: 120, maxPoints: 400, spanPeriods: [2]int{4, 20}, opts: dbh.Opts{VirtualTime: true}})
	if d == nil {
		return
	}
	defer d.db.Close()
	nq := c.Pick(25, 60)
	cut := 0
	var samples []string
	for qi := 0; qi < nq && !c.Violated(); qi++ {
		q := genQuery(r, d, qOpts{})
		truth := d.db.Query(q.SQL, true)
		if truth.Failed() || len(truth.Rows) == 0 {
			continue
		}
		var f c13Fault
		switch r.Intn(4) {
		case 0:
			f = c13Fault{kind: "expired"}
		case 1:
			f = c13Fault{kind: "hook", point: []string{"iterate.afterCopy", "iterate.beforeScan"}[r.Intn(2)]}
		default:
			f = c13Fault{kind: "row", row: r.Intn(len(truth.Rows))}
		}
		// the deadline is far away; the fault point waits until it has passed
		var ctx context.Context
		var cancel context.CancelFunc
		var deadline time.Time
		if f.kind == "expired" {
			deadline = time.Now().Add(-time.Millisecond)
		} else {
			deadline = time.Now().Add(150 * time.Millisecond)
		}
		ctx, cancel = context.WithDeadline(context.Background(), deadline)
		waitPast := func() {
			for !time.Now().After(deadline.Add(2 * time.Millisecond)) {
				time.Sleep(time.Millisecond)
			}
		}
		var armed int32 = 1
		if f.kind == "hook" {
			zenodb.VerifSetHandler(func(name string, n int64) {
				if name == f.point && atomic.CompareAndSwapInt32(&armed, 1, 0) {
					waitPast()
				}
			})
		}
		got := dbh.RunQuery(ctx, d.db.DB, q.SQL, true, func(i int, row *dbh.Row) (bool, error) {
			if f.kind == "row" && i == f.row {
				waitPast()
			}
			return true, nil
		})
		zenodb.VerifSetHandler(nil)
		cancel()
		c.Obs("executions", 1)
		c.Obs("fault:"+f.kind, 1)
		c.HashAdd(q.SQL, f.String())
		if len(samples) < 4 {
			samples = append(samples, q.SQL+"  ["+f.String()+"]")
		}
		incomplete := len(got.Rows) < len(truth.Rows)
		if incomplete {
			cut++
			c.Obs("executions_where_rows_were_cut", 1)
			if !got.Failed() {
				c.ViolateData("c13-embedded-truncated-without-error:"+f.kind, map[string]interface{}{"dataset": d.describe(), "sql": q.SQL, "fault": f.String(), "plan": got.Plan},
					"%q with %s delivered %d of %d rows and returned a nil error", q.SQL, f.String(), len(got.Rows), len(truth.Rows))
			}
		}
	}
	c.Nontrivial(cut > 0)
	c.Sample(map[string]interface{}{"kind": "embedded", "dataset": d.describe(), "executions": samples})
}

// ------------------------------------------------------------------------------------------

// c13HTTPVariants serves zdb (an embedded database or a cluster leader) through the web handler on an httptest
// server and runs the given fault variants (0 = response size cap, 1 = query timeout forced past inside the scan,
// 2 = control without fault) through /immediate, /cached/<permalink> and /run.
func c13HTTPVariants(c *fw.Ctx, zdb *zenodb.DB, nKeys int, variants []int, tag string) (cut int, log []string) {
	r := c.Rand
	for _, variant := range variants {
		opts := &web.Opts{CacheDir: fmt.Sprintf("%s/cache-%s%d", c.Dir, tag, variant), QueryTimeout: 30 * time.Second}
		var faultDesc string
		switch variant {
		case 0:
			// estimated-size cap: cuts the scan after some rows
			opts.MaxResponseBytes = 2000 + r.Intn(8000)
			faultDesc = fmt.Sprintf("%sMaxResponseBytes=%d", tag, opts.MaxResponseBytes)
		case 1:
			// query timeout forced past inside the scan
			opts.QueryTimeout = 300 * time.Millisecond
			faultDesc = tag + "QueryTimeout=300ms forced past at iterate.beforeScan"
		default:
			faultDesc = tag + "no fault (control)"
		}
		router := mux.NewRouter()
		stopWeb, err := web.Configure(zdb, router, opts)
		if err != nil {
			c.Inconclusive("configure: %v", err)
			return cut, log
		}
		srv := httptest.NewServer(router)
		client := &http.Client{Timeout: 90 * time.Second}
		sqlString := "SELECT * FROM t"
		if variant == 1 {
			var armed int32 = 1
			zenodb.VerifSetHandler(func(name string, n int64) {
				if name == "iterate.beforeScan" && atomic.CompareAndSwapInt32(&armed, 1, 0) {
					time.Sleep(450 * time.Millisecond)
				}
			})
		}
		get := func(path string) (int, *web.QueryResult, string) {
			resp, err := client.Get(srv.URL + path)
			if err != nil {
				return 0, nil, err.Error()
			}
			body := c19Body(resp)
			var qr web.QueryResult
			json.Unmarshal(body, &qr)
			s := string(body)
			if len(s) > 200 {
				s = s[:200]
			}
			return resp.StatusCode, &qr, s
		}
		status, qr, body := get("/immediate?" + url.QueryEscape(sqlString))
		// a pending answer is followed through its permalink
		for tries := 0; status == http.StatusAccepted && tries < 40; tries++ {
			time.Sleep(250 * time.Millisecond)
			status, qr, body = get(strings.TrimSpace(body))
		}
		zenodb.VerifSetHandler(nil)
		entry := fmt.Sprintf("%s: /immediate -> status %d with %d of %d rows", faultDesc, status, len(qr.Rows), nKeys)
		log = append(log, entry)
		c.Obs("http_executions", 1)
		c.HashAdd(faultDesc)
		check := func(what string, status int, rows int) {
			if rows < nKeys {
				if variant != 2 {
					cut++
				}
				if status == http.StatusOK {
					sig := "c13-http-truncated-served-as-200"
					c.ViolateData(sig, map[string]interface{}{"fault": faultDesc, "endpoint": what}, "HTTP %s with %s answered 200 with %d of %d rows (a truncated result served as success)", what, faultDesc, rows, nKeys)
				}
			}
		}
		check("/immediate", status, len(qr.Rows))
		// later cached responses
		if qr.Permalink != "" || status == http.StatusOK {
			st2, qr2, _ := get("/cached/" + qr.Permalink)
			log = append(log, fmt.Sprintf("%s: /cached -> status %d with %d rows", faultDesc, st2, len(qr2.Rows)))
			check("/cached/<permalink>", st2, len(qr2.Rows))
		}
		st3, qr3, _ := get("/run?" + url.QueryEscape(sqlString))
		log = append(log, fmt.Sprintf("%s: /run (cache) -> status %d with %d rows", faultDesc, st3, len(qr3.Rows)))
		if st3 == http.StatusOK {
			check("/run", st3, len(qr3.Rows))
		}
		if variant == 2 && (status != 200 || len(qr.Rows) != nKeys) {
			c.Inconclusive("control request without fault was not served completely: status %d rows %d", status, len(qr.Rows))
		}
		srv.Close()
		stopWeb()
	}
	return cut, log
}

func c13HTTP(c *fw.Ctx) {
	r := c.Rand
	nKeys := 300 + r.Intn(500)
	defs := []dbh.TableDef{{Name: "t", SQL: "SELECT SUM(v) AS v FROM inbound GROUP BY k, period(1h)", Retention: 1000 * time.Hour, Stream: "inbound"}}
	db, err := dbh.Open(c.Dir+"/db", defs, dbh.Opts{VirtualTime: true})
	if err != nil {
		c.Inconclusive("open: %v", err)
		return
	}
	defer db.Close()
	for i := 0; i < nKeys; i++ {
		db.Insert("inbound", gen.Base.Add(time.Duration(i)*time.Second), map[string]interface{}{"k": fmt.Sprintf("key-%05d", i)}, map[string]interface{}{"v": float64(i + 1)})
	}
	db.WaitCaughtUp(quiesceTimeout)
	db.FlushAll()
	cut, log := c13HTTPVariants(c, db.DB, nKeys, []int{0, 1, 2}, "")
	c.Nontrivial(cut > 0)
	c.Sample(map[string]interface{}{"kind": "http", "keys": nKeys, "log": log})
}

// ------------------------------------------------------------------------------------------

func c13RPC(c *fw.Ctx) {
	r := c.Rand
	d := buildDataset(c, dsOpts{minPoints: 150, maxPoints: 400, spanPeriods: [2]int{4, 20}, opts: dbh.Opts{VirtualTime: true}})
	if d == nil {
		return
	}
	defer d.db.Close()
	l, err := net.Listen("tcp", "127.0.0.1:0")
	if err != nil {
		c.Inconclusive("listen: %v", err)
		return
	}
	serve, stop := rpcserver.PrepareServer(d.db.DB, l, &rpcserver.Opts{ID: 1})
	go serve()
	defer stop()
	cl, err := rpc.Dial(l.Addr().String(), &rpc.ClientOpts{})
	if err != nil {
		c.Inconclusive("dial: %v", err)
		return
	}
	defer cl.Close()
	nq := c.Pick(12, 30)
	cut := 0
	var samples []string
	for qi := 0; qi < nq && !c.Violated(); qi++ {
		q := genQuery(r, d, qOpts{})
		truth := d.db.Query(q.SQL, true)
		if truth.Failed() || len(truth.Rows) == 0 {
			continue
		}
		// deadline forced past on the server side before the scan
		deadline := time.Now().Add(250 * time.Millisecond)
		ctx, cancel := context.WithDeadline(context.Background(), deadline)
		var armed int32 = 1
		pt := []string{"iterate.afterCopy", "iterate.beforeScan"}[r.Intn(2)]
		zenodb.VerifSetHandler(func(name string, n int64) {
			if name == pt && atomic.CompareAndSwapInt32(&armed, 1, 0) {
				for !time.Now().After(deadline.Add(5 * time.Millisecond)) {
					time.Sleep(time.Millisecond)
				}
			}
		})
		rows := 0
		var qerr error
		_, iterate, err := cl.Query(ctx, q.SQL, true)
		if err != nil {
			qerr = err
		} else {
			_, qerr = iterate(func(fr *core.FlatRow) (bool, error) {
				_ = bytemap.ByteMap(fr.Key)
				rows++
				return true, nil
			})
		}
		zenodb.VerifSetHandler(nil)
		cancel()
		c.Obs("rpc_executions", 1)
		c.HashAdd(q.SQL, pt)
		if len(samples) < 3 {
			samples = append(samples, q.SQL)
		}
		if rows < len(truth.Rows) {
			cut++
			c.Obs("rpc_executions_where_rows_were_cut", 1)
			if qerr == nil {
				c.ViolateData("c13-rpc-truncated-without-error", map[string]interface{}{"sql": q.SQL, "point": pt}, "rpc query %q with its deadline forced past at %s delivered %d of %d rows and reported no error", q.SQL, pt, rows, len(truth.Rows))
			}
		}
	}
	c.Nontrivial(cut > 0)
	c.Sample(map[string]interface{}{"kind": "rpc", "dataset": d.describe(), "queries": samples})
}
