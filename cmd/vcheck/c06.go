package main

// C06 — coarser grouping re-aggregates without loss or overlap.
// C07 — ASOF/UNTIL return exactly the periods inside the requested window.
// Both use the reference bucket aggregator over raw points; C07 adds the differential against
// the unbounded query at native resolution.

import (
	"fmt"
	"math/rand"
	"sort"
	"strings"
	"time"

	"verif/internal/dbh"
	"verif/internal/fw"
	"verif/internal/gen"
	"verif/internal/ref"
)

func init() {
	fw.Register(&fw.Property{
		ID:    "C06",
		Level: "exploration",
		Rule: "one case = generated table + 60-400 points + memory/disk split, then N queries SELECT <_points + field subset + derived sums/ratios> GROUP BY <dim subset | _ | nothing>, period(k*res | window | >window | non-multiple); " +
			"oracle = bucket aggregation of raw points (T_j = until - j*P, native period end in (T_j-P, T_j]) + disjointness + conservation of _points; non-trivial = some bucket holds >=2 native periods and some group merges >=2 keys",
		Assumptions: []string{"database clock = newest accepted timestamp (VirtualTime)", "a period that is not a multiple of the resolution must be rejected with an error", "don't-care: aggregates over nothing, x/0"},
		Cases: func(tier string) int {
			if tier == "quick" {
				return 90
			}
			return 1200
		},
		Batch:            10,
		Workers:          8,
		RaceEvery:        6,
		PanicIsViolation: true,
		Run:              runC06,
	})
	fw.Register(&fw.Property{
		ID:    "C07",
		Level: "exploration",
		Rule: "one case = generated table + points + memory/disk split, then N (asOf, until) pairs: absolute, relative to the clock, or mixed per bound, aligned/unaligned, inside/outside/straddling the data, optionally with period(P) and a dim subset; " +
			"oracle at native resolution = differential against the unbounded query with must-include (period wholly inside) / must-exclude (wholly outside) / straddler-free partition and exact value equality; " +
			"with period(P) = bucket oracle re-anchored at the rounded until; default window checked against (now-retention, now]; non-trivial = the window cuts the stored data (excludes >=1 stored period and includes >=1)",
		Assumptions: []string{"database clock = newest accepted timestamp (VirtualTime)", "periods straddling a window edge are don't-care", "a query asOf before the table's own asOf may be refused with an error"},
		Cases: func(tier string) int {
			if tier == "quick" {
				return 90
			}
			return 1200
		},
		Batch:            10,
		Workers:          8,
		RaceEvery:        6,
		PanicIsViolation: true,
		Run:              runC07,
	})
}

// derived query fields over table fields
type qField struct {
	name   string
	sql    string
	base   int // index into table fields, -1 for derived
	op     string
	a, b   int
	points bool
}

// derivedEqualsStored reports whether q is a derived field (x op y over two table fields) whose expression, once the
// field names are replaced by their definitions, is literally the expression of some stored table field.
func (q *qField) derivedEqualsStored(t *ref.TableSpec) bool {
	if q.base >= 0 || q.points || q.a < 0 || q.b < 0 || q.a >= len(t.Fields) || q.b >= len(t.Fields) {
		return false
	}
	strip := func(f *ref.FieldDef) string {
		sql := f.SQL()
		if i := strings.LastIndex(sql, " AS "); i >= 0 {
			sql = sql[:i]
		}
		return strings.Join(strings.Fields(sql), " ")
	}
	e := strip(&t.Fields[q.a]) + " " + q.op + " " + strip(&t.Fields[q.b])
	for i := range t.Fields {
		if strip(&t.Fields[i]) == e {
			return true
		}
	}
	return false
}

func (q *qField) value(t *ref.TableSpec, cell *ref.Cell) (val float64, dontCare bool) {
	if q.points {
		return float64(cell.Points), false
	}
	if q.base >= 0 {
		v, _, dc := cell.Accs[q.base].Value(&t.Fields[q.base])
		return v, dc
	}
	va, _, dca := cell.Accs[q.a].Value(&t.Fields[q.a])
	vb, _, dcb := cell.Accs[q.b].Value(&t.Fields[q.b])
	if dca || dcb {
		return 0, true
	}
	switch q.op {
	case "+":
		return va + vb, false
	case "-":
		return va - vb, false
	case "*":
		return va * vb, false
	default:
		if vb == 0 {
			return 0, true
		}
		return va / vb, false
	}
}

// collidingFields returns the table fields whose expression text inside zenodb is identical to
// that of a differently defined field: WAVG(v, w) prints as AVG(v) (expr/avg.go String()), so
// AVG(v) and WAVG(v, w) (or two WAVGs with different weights) cannot be told apart wherever
// zenodb matches expressions by text (known finding, see DESIGN.md).
func collidingFields(t *ref.TableSpec) map[string]bool {
	zs := func(f *ref.FieldDef) string {
		switch f.Kind {
		case "avg", "wavg":
			return "AVG(" + f.A + ")"
		}
		return ""
	}
	def := func(f *ref.FieldDef) string {
		return strings.SplitN(f.SQL(), " AS ", 2)[0]
	}
	out := map[string]bool{}
	for i := range t.Fields {
		for j := range t.Fields {
			if i != j && zs(&t.Fields[i]) != "" && zs(&t.Fields[i]) == zs(&t.Fields[j]) && def(&t.Fields[i]) != def(&t.Fields[j]) {
				out[t.Fields[i].Name] = true
			}
		}
	}
	return out
}

func (q *qField) involves(t *ref.TableSpec, set map[string]bool) bool {
	if q.points || len(set) == 0 {
		return false
	}
	if q.base >= 0 {
		return set[t.Fields[q.base].Name]
	}
	return set[t.Fields[q.a].Name] || set[t.Fields[q.b].Name]
}

// genSelect builds a select list: always _points, a subset of table fields, some derived fields.
func genSelect(r *rand.Rand, t *ref.TableSpec) []qField {
	out := []qField{{name: "_points", sql: "_points", base: -1, points: true}}
	perm := r.Perm(len(t.Fields))
	k := 1 + r.Intn(len(t.Fields))
	for _, i := range perm[:k] {
		out = append(out, qField{name: t.Fields[i].Name, sql: t.Fields[i].Name, base: i})
	}
	nd := r.Intn(3)
	for d := 0; d < nd; d++ {
		a, b := r.Intn(len(t.Fields)), r.Intn(len(t.Fields))
		op := []string{"+", "-", "*", "/"}[r.Intn(4)]
		name := fmt.Sprintf("d%d", d)
		out = append(out, qField{name: name, sql: fmt.Sprintf("%s %s %s AS %s", t.Fields[a].Name, op, t.Fields[b].Name, name), base: -1, op: op, a: a, b: b})
	}
	// shuffle all but keep _points somewhere
	r.Shuffle(len(out), func(i, j int) { out[i], out[j] = out[j], out[i] })
	return out
}

func selectSQL(fs []qField) string {
	var parts []string
	for _, f := range fs {
		parts = append(parts, f.sql)
	}
	return strings.Join(parts, ", ")
}

// genGroupDims picks how the query groups: keepKeys (no dim clause), none ("_"), or a subset.
func genGroupDims(r *rand.Rand, t *ref.TableSpec) (dims []string, keepKeys bool, clause string) {
	avail := t.GroupBy
	if len(avail) == 0 {
		avail = gen.GroupDims
	}
	switch r.Intn(5) {
	case 0:
		return nil, true, ""
	case 1:
		return []string{}, false, "_"
	default:
		perm := r.Perm(len(avail))
		k := 1 + r.Intn(len(avail))
		for _, i := range perm[:k] {
			dims = append(dims, avail[i])
		}
		sort.Strings(dims)
		return dims, false, strings.Join(dims, ", ")
	}
}

// compareBuckets compares a result with reference bucket cells for the given query fields.
func compareBuckets(c *fw.Ctx, what string, t *ref.TableSpec, res *dbh.Result, cells map[string]*ref.Cell, fs []qField, sig string, data interface{}) int {
	idx := make([]int, len(fs))
	for i := range fs {
		idx[i] = res.Field(fs[i].name)
		if idx[i] < 0 {
			c.ViolateData(sig+"-missing-field", data, "%s: result of %q lacks field %s (has %v)", what, res.SQL, fs[i].name, res.Fields)
			return 0
		}
	}
	compared := 0
	seen := map[string]bool{}
	for i := range res.Rows {
		row := &res.Rows[i]
		id := row.ID()
		if seen[id] {
			c.ViolateData(sig+"-duplicate-row", data, "%s: %q returned two rows for (ts=%v key=%s)", what, res.SQL, time.Unix(0, row.TS).UTC(), row.Key)
			return compared
		}
		seen[id] = true
		cell := cells[id]
		if cell == nil {
			c.ViolateData(sig+"-extra-row", data, "%s: %q returned row (ts=%v key=%s vals=%v) that the reference does not have", what, res.SQL, time.Unix(0, row.TS).UTC(), row.Key, row.Vals)
			return compared
		}
		for fi := range fs {
			want, dc := fs[fi].value(t, cell)
			if dc {
				c.Obs("fields_dont_care", 1)
				continue
			}
			compared++
			got := row.Vals[idx[fi]]
			if !ref.FloatEq(got, want, 1e-9) {
				vsig := sig + "-value"
				if fs[fi].involves(t, collidingFields(t)) {
					vsig += "-wavg-text-collision"
				}
				if fs[fi].derivedEqualsStored(t) {
					// known finding: a derived select expression whose text equals the expression of a stored field
					vsig += ":derived-equals-stored-field"
				}
				c.ViolateData(vsig, data, "%s: %q row (ts=%v key=%s): %s = %v, reference (raw points %v) says %v", what, res.SQL, time.Unix(0, row.TS).UTC(), row.Key, fs[fi].sql, got, cell.IDs, want)
				return compared
			}
		}
	}
	for id, cell := range cells {
		if !seen[id] {
			c.ViolateData(sig+"-missing-row", data, "%s: %q lacks row (ts=%v key=%s) although accepted points %v fall into it", what, res.SQL, time.Unix(0, cell.TS).UTC(), cell.Key, cell.IDs)
			return compared
		}
	}
	return compared
}

func runC06(c *fw.Ctx) {
	r := c.Rand
	d := buildDataset(c, dsOpts{minPoints: 60, maxPoints: 400, spanPeriods: [2]int{4, 30}, opts: dbh.Opts{VirtualTime: true},
		retentionSlack: func(r *rand.Rand, res time.Duration) time.Duration {
			return res*time.Duration(1+r.Intn(6)) + time.Duration(r.Intn(3))*res/2
		}})
	if d == nil {
		return
	}
	defer d.db.Close()
	if d.ood > 0 {
		c.Inconclusive("table WHERE outside the reference evaluator's domain")
		return
	}
	t := d.spec
	window := d.until.Sub(d.asOf)
	nq := c.Pick(12, 25)
	nontrivial := false
	var sampleQ []string
	for qi := 0; qi < nq && !c.Violated(); qi++ {
		fs := genSelect(r, t)
		dims, keep, clause := genGroupDims(r, t)
		var P time.Duration
		kind := r.Intn(10)
		switch {
		case kind < 6:
			P = t.Res * time.Duration(1+r.Intn(7))
		case kind == 6:
			P = window
		case kind == 7:
			P = window + t.Res*time.Duration(1+r.Intn(5))
		case kind == 8:
			P = t.Res * time.Duration(1+r.Intn(int(window/t.Res)))
		default:
			P = t.Res*time.Duration(1+r.Intn(4)) + t.Res/2 // non-multiple
		}
		gb := fmt.Sprintf("period(%v)", P)
		if clause != "" {
			gb = clause + ", " + gb
		}
		mem := d.split == "mem" || r.Intn(4) != 0
		if d.split != "disk" {
			mem = true
		}
		sql := fmt.Sprintf("SELECT %s FROM t GROUP BY %s", selectSQL(fs), gb)
		res := d.db.Query(sql, mem)
		data := map[string]interface{}{"dataset": d.describe(), "sql": sql}
		c.Obs("queries", 1)
		if len(sampleQ) < 3 {
			sampleQ = append(sampleQ, sql)
		}
		if P%t.Res != 0 && P <= window {
			c.Obs("non_multiple_periods", 1)
			if !res.Failed() {
				c.ViolateData("c06-nonmultiple-accepted", data, "%q: period %v is not a multiple of the table resolution %v but the query returned %d rows instead of an error", sql, P, t.Res, len(res.Rows))
			}
			continue
		}
		if res.Failed() {
			c.ViolateData("c06-query-error", data, "%q failed: %s", sql, res.ErrString())
			continue
		}
		effP := P
		if effP > window {
			effP = window
			c.Obs("periods_beyond_window", 1)
		}
		if !res.Until.Equal(d.until) {
			c.ViolateData("c06-until", data, "%q: plan until %v differs from roundUp(clock %v) = %v", sql, res.Until, d.now, d.until)
			continue
		}
		buckets := ref.Regroup(d.cells, t.Fields, dims, keep, effP, d.asOf, d.until)
		n := compareBuckets(c, "coarse grouping", t, res, buckets, fs, "c06", data)
		c.Obs("values_compared", int64(n))
		c.Obs("buckets_compared", int64(len(buckets)))
		// disjointness: TS differences within a key are multiples of P, all on the anchor grid
		for i := range res.Rows {
			if (d.until.UnixNano()-res.Rows[i].TS)%int64(effP) != 0 {
				c.ViolateData("c06-overlap", data, "%q: row ts %v is not on the bucket grid anchored at %v with period %v (overlapping periods)", sql, time.Unix(0, res.Rows[i].TS).UTC(), d.until, effP)
				break
			}
		}
		// conservation
		if pi := res.Field("_points"); pi >= 0 {
			total := 0
			for _, cell := range d.cells {
				if cell.TS > d.asOf.UnixNano() && cell.TS <= d.until.UnixNano() {
					total += cell.Points
				}
			}
			sum := 0.0
			for i := range res.Rows {
				sum += res.Rows[i].Vals[pi]
			}
			if sum != float64(total) {
				c.ViolateData("c06-conservation", data, "%q: sum of _points = %v but %d accepted points lie inside the window (%v, %v]", sql, sum, total, d.asOf, d.until)
			}
		}
		if effP > t.Res && !keep && len(buckets) < len(d.cells) {
			nontrivial = true
		}
	}
	c.Nontrivial(nontrivial)
	c.Sample(map[string]interface{}{"dataset": d.describe(), "queries": sampleQ})
}

// ------------------------------------------------------------------------------------------

func runC07(c *fw.Ctx) {
	r := c.Rand
	// a share of cases uses retention not a multiple of the resolution and data reaching back to the retention boundary
	// every third case: points arrive in timestamp order and the retention is shorter than the data
	// span, so stored data reaches across the retention boundary (default-window clause)
	boundaryMode := c.Case%3 == 0
	var retentionFn func(r *rand.Rand, res, span time.Duration) time.Duration
	if boundaryMode {
		retentionFn = func(r *rand.Rand, res, span time.Duration) time.Duration {
			k := 2 + r.Intn(int(span/res))
			ret := res * time.Duration(k)
			switch r.Intn(3) {
			case 1:
				ret += res / 2
			case 2:
				ret += time.Duration(1 + r.Int63n(int64(res)-1))
			}
			return ret
		}
		c.Obs("boundary_mode_cases", 1)
	}
	d := buildDataset(c, dsOpts{minPoints: 60, maxPoints: 300, spanPeriods: [2]int{6, 30}, opts: dbh.Opts{VirtualTime: true}, ascending: boundaryMode, retentionFn: retentionFn,
		retentionSlack: func(r *rand.Rand, res time.Duration) time.Duration {
			switch r.Intn(3) {
			case 0:
				return res * time.Duration(1+r.Intn(4))
			case 1:
				return res*time.Duration(1+r.Intn(4)) + res/2
			default:
				return res*time.Duration(1+r.Intn(4)) + time.Duration(1+r.Int63n(int64(res)-1))
			}
		}})
	if d == nil {
		return
	}
	defer d.db.Close()
	if d.ood > 0 {
		c.Inconclusive("table WHERE outside the reference evaluator's domain")
		return
	}
	t := d.spec
	res := t.Res
	mem := true
	full := d.db.Query("SELECT * FROM t", mem)
	if full.Failed() {
		c.Violate("c07-query-error", "unbounded query failed: %s", full.ErrString())
		return
	}
	fullIdx, _ := full.Index()
	data0 := d.describe()

	// default window clause: a grouped query without a range must cover (now - retention, now]
	{
		sql := "SELECT _points FROM t GROUP BY " + groupAllClause(t)
		q := d.db.Query(sql, mem)
		c.Obs("default_window_checks", 1)
		if q.Failed() {
			c.ViolateData("c07-query-error", data0, "%q failed: %s", sql, q.ErrString())
		} else {
			got, _ := q.Index()
			lower := d.now.Add(-d.retention)
			for id, cell := range d.cells {
				end := time.Unix(0, cell.TS)
				begin := end.Add(-res)
				inside := !begin.Before(lower) && !end.After(d.until)
				outside := !end.After(lower)
				_, present := got[id]
				if inside && !present {
					sig := "c07-default-window-drops-inside"
					if d.retention%res != 0 {
						sig += "-retention-not-multiple"
					}
					c.ViolateData(sig, map[string]interface{}{"dataset": data0, "sql": sql}, "%q (no ASOF/UNTIL): period (%v, %v] lies wholly inside (now - retention, now] = (%v, %v] and is stored (ids %v) but is not returned; plan window (%v, %v], retention %v, resolution %v",
						sql, begin.UTC(), end.UTC(), lower.UTC(), d.now.UTC(), cell.IDs, q.AsOf.UTC(), q.Until.UTC(), d.retention, res)
					break
				}
				if outside && present {
					c.ViolateData("c07-default-window-keeps-outside", map[string]interface{}{"dataset": data0, "sql": sql}, "%q (no ASOF/UNTIL): period ending %v ended before now - retention = %v but is returned", sql, end.UTC(), lower.UTC())
					break
				}
			}
		}
	}

	first, last := d.now, time.Time{}
	for _, cell := range d.cells {
		ts := time.Unix(0, cell.TS)
		if ts.Before(first) {
			first = ts
		}
		if ts.After(last) {
			last = ts
		}
	}
	nq := c.Pick(40, 80)
	nontrivial := false
	var samples []string
	for qi := 0; qi < nq && !c.Violated(); qi++ {
		// choose bounds around the data
		pick := func() time.Time {
			span := last.Sub(first) + 6*res
			tt := first.Add(-3 * res).Add(time.Duration(r.Int63n(int64(span) + 1)))
			switch r.Intn(3) {
			case 0:
				tt = ref.CeilTime(tt, res)
			case 1:
				tt = ref.CeilTime(tt, res).Add(time.Duration(r.Intn(3)-1) * time.Nanosecond)
			}
			return tt
		}
		var asOf, until time.Time
		hasAsOf, hasUntil := r.Intn(5) != 0, r.Intn(4) != 0
		if !hasAsOf {
			// the grammar only accepts UNTIL after ASOF
			hasAsOf = true
		}
		if hasAsOf {
			asOf = pick()
			if asOf.Before(d.asOf) && r.Intn(4) != 0 {
				asOf = d.asOf.Add(time.Duration(r.Int63n(int64(3 * res))))
			}
		}
		if hasUntil {
			until = pick()
			if hasAsOf && !until.After(asOf.Add(res)) {
				until = asOf.Add(res + time.Duration(r.Int63n(int64(8*res))))
			}
		}
		rng := ""
		// each bound is absolute or relative to the database clock on its own (so ranges also mix the two)
		relAsOf := r.Intn(3) == 0 && hasAsOf && asOf.Before(d.now)
		relUntil := hasUntil && until.Before(d.now) && ((relAsOf && r.Intn(3) != 0) || (!relAsOf && r.Intn(4) == 0))
		if hasAsOf {
			if relAsOf {
				rng += fmt.Sprintf(" ASOF '%v'", relDur(asOf.Sub(d.now)))
			} else {
				rng += fmt.Sprintf(" ASOF '%s'", dbh.FmtTime(asOf))
			}
		}
		if hasUntil {
			if relUntil {
				rng += fmt.Sprintf(" UNTIL '%v'", relDur(until.Sub(d.now)))
			} else {
				rng += fmt.Sprintf(" UNTIL '%s'", dbh.FmtTime(until))
			}
		}
		if hasAsOf && hasUntil && relAsOf != relUntil {
			c.Obs("ranges_mixing_absolute_and_relative", 1)
		}
		effAsOf, effUntil := d.asOf, d.until
		if hasAsOf {
			effAsOf = ref.CeilTime(asOf, res)
		}
		if hasUntil {
			effUntil = ref.CeilTime(until, res)
		}
		withPeriod := r.Intn(3) == 0
		if !withPeriod {
			// native resolution: differential against the unbounded query
			fs := genSelect(r, t)
			sql := fmt.Sprintf("SELECT %s FROM t%s", selectSQL(fs), rng)
			if r.Intn(2) == 0 {
				sql += " GROUP BY " + groupAllClause(t)
			}
			q := d.db.Query(sql, mem)
			c.Obs("range_queries_native", 1)
			if len(samples) < 3 {
				samples = append(samples, sql)
			}
			data := map[string]interface{}{"dataset": data0, "sql": sql}
			if q.Failed() {
				if hasAsOf && effAsOf.Before(d.asOf) && q.PlanErr != nil {
					c.Obs("asof_before_table_refused", 1)
					continue
				}
				if !effUntil.After(effAsOf) {
					c.Obs("empty_window_refused", 1)
					continue
				}
				c.ViolateData("c07-query-error", data, "%q failed: %s", sql, q.ErrString())
				continue
			}
			if hasAsOf && !q.AsOf.Equal(effAsOf) || hasUntil && !q.Until.Equal(effUntil) {
				c.ViolateData("c07-bounds", data, "%q: plan window (%v, %v] differs from the rounded request (%v, %v]", sql, q.AsOf.UTC(), q.Until.UTC(), effAsOf.UTC(), effUntil.UTC())
				continue
			}
			got, dup := q.Index()
			if dup != "" {
				c.ViolateData("c07-duplicate-row", data, "%q returned row %s twice", sql, dup)
				continue
			}
			incl, excl := 0, 0
			lowerReq, upperReq := d.asOf, d.until
			if hasAsOf {
				lowerReq = asOf
			}
			if hasUntil {
				upperReq = until
			}
			for id, fr := range fullIdx {
				end := time.Unix(0, fr.TS)
				begin := end.Add(-res)
				inside := !begin.Before(lowerReq) && !end.After(upperReq) && end.After(d.asOf)
				outside := !end.After(lowerReq) || !begin.Before(upperReq)
				gr, present := got[id]
				if inside {
					incl++
					if !present {
						c.ViolateData("c07-drops-inside", data, "%q: stored period (%v, %v] key %s lies wholly inside the requested window but is missing", sql, begin.UTC(), end.UTC(), fr.Key)
						break
					}
				}
				if outside {
					excl++
					if present {
						c.ViolateData("c07-keeps-outside", data, "%q: stored period (%v, %v] key %s lies wholly outside the requested window (%v, %v] but is returned", sql, begin.UTC(), end.UTC(), fr.Key, lowerReq.UTC(), upperReq.UTC())
						break
					}
				}
				if present {
					// values identical to the unbounded query for named table fields
					for fi := range fs {
						if fs[fi].base < 0 && !fs[fi].points {
							continue
						}
						gi := q.Field(fs[fi].name)
						ui := full.Field(fs[fi].name)
						if gi < 0 || ui < 0 {
							continue
						}
						c.Obs("values_compared", 1)
						if gr.Vals[gi] != fr.Vals[ui] && !(gr.Vals[gi] == 0 && fr.Vals[ui] == 0) {
							c.ViolateData("c07-value-differs", data, "%q: row (ts=%v key=%s) field %s = %v but the unbounded query reports %v", sql, end.UTC(), fr.Key, fs[fi].name, gr.Vals[gi], fr.Vals[ui])
							break
						}
					}
				}
			}
			for id, gr := range got {
				if _, ok := fullIdx[id]; !ok {
					c.ViolateData("c07-extra-row", data, "%q returned row (ts=%v key=%s) that the unbounded query does not have", sql, time.Unix(0, gr.TS).UTC(), gr.Key)
					break
				}
			}
			if incl > 0 && excl > 0 {
				nontrivial = true
			}
		} else {
			// with period(P): bucket oracle re-anchored at the rounded until
			if !effUntil.After(effAsOf) || effAsOf.Before(d.asOf) {
				continue
			}
			window := effUntil.Sub(effAsOf)
			P := res * time.Duration(1+r.Intn(5))
			fs := genSelect(r, t)
			dims, keep, clause := genGroupDims(r, t)
			gb := fmt.Sprintf("period(%v)", P)
			if clause != "" {
				gb = clause + ", " + gb
			}
			sql := fmt.Sprintf("SELECT %s FROM t%s GROUP BY %s", selectSQL(fs), rng, gb)
			q := d.db.Query(sql, mem)
			c.Obs("range_queries_period", 1)
			data := map[string]interface{}{"dataset": data0, "sql": sql}
			if q.Failed() {
				c.ViolateData("c07-query-error", data, "%q failed: %s", sql, q.ErrString())
				continue
			}
			effP := P
			if effP > window {
				effP = window
			}
			buckets := ref.Regroup(d.cells, t.Fields, dims, keep, effP, effAsOf, effUntil)
			// straddlers cannot occur here: both bounds are rounded to the native grid
			n := compareBuckets(c, "time range with period", t, q, buckets, fs, "c07p", data)
			c.Obs("values_compared", int64(n))
			if len(buckets) > 0 {
				nontrivial = true
			}
		}
	}
	c.Nontrivial(nontrivial)
	c.Sample(map[string]interface{}{"dataset": data0, "queries": samples})
}

func groupAllClause(t *ref.TableSpec) string {
	if len(t.GroupBy) == 0 {
		return "*"
	}
	return strings.Join(t.GroupBy, ", ")
}

// relDur renders a (negative) offset in a form sql.ParseDuration accepts.
func relDur(d time.Duration) string {
	return fmt.Sprintf("%dns", d.Nanoseconds())
}
