package main

// C05 — combining partial aggregates equals aggregating raw points; merging never
// modifies operands; restricting a series to a time range keeps exactly the periods inside.
//
// Reference-model monitor around every call of expr.Merge / SubMergers,
// Sequence.Merge, Sequence.SubMerge and Sequence.Truncate: operands are
// snapshotted before and byte-compared after, results are compared with a model
// that keeps period -> multiset of updates.

import (
	"bytes"
	"fmt"
	"math"
	"math/rand"
	"time"

	"github.com/getlantern/bytemap"
	"github.com/getlantern/goexpr"
	"github.com/getlantern/zenodb/encoding"
	"github.com/getlantern/zenodb/expr"

	"verif/internal/fw"
)

func init() {
	fw.Register(&fw.Property{
		ID:    "C05",
		Level: "exploration",
		Rule: "case kinds: (a) random expression tree x random update multiset split into 2-3 parts, merged in every order/association and via SubMergers from table fields; " +
			"(b) exhaustive pairs of sequences over a 6-period window x truncateBefore choices for Sequence.Merge; (c) random SubMerge scenarios (scale 1-4, window, stride) vs bucket model; " +
			"(d) exhaustive Sequence.Truncate over the window x (asOf, until). Non-trivial = at least two non-empty operands with overlapping periods (a,b,c) / a bound that removes >=1 period (d); distinct by content hash",
		Assumptions: []string{"values are dyadic rationals so that sums are exact and comparison tolerance 1e-9 only absorbs division", "NaN==NaN for LN/LOG of non-positive values", "periods older than truncateBefore are don't-care in Sequence.Merge"},
		Cases: func(tier string) int {
			if tier == "quick" {
				return 48
			}
			return 800
		},
		Batch:            4,
		Workers:          8,
		PanicIsViolation: true,
		Run:              runC05,
	})
}

func runC05(c *fw.Ctx) {
	// cases are split by kind: 0 => (b) exhaustive, 1 => (d) exhaustive, rest alternate (a)/(c)
	switch {
	case c.Case == 0:
		c05SeqMergeExhaustive(c, expr.SUM("v"))
	case c.Case == 1:
		c05TruncateExhaustive(c, expr.SUM("v"))
	case c.Case == 2:
		c05SeqMergeExhaustive(c, expr.AVG("v"))
	case c.Case == 3:
		c05TruncateExhaustive(c, expr.ADD(expr.SUM("v"), expr.COUNT("v")))
	case c.Case%3 == 2:
		n := c.Pick(1500, 6000)
		for i := 0; i < n && !c.Violated(); i++ {
			c05ShiftCase(c)
		}
		c.Sample(map[string]interface{}{"kind": "c': SubMerge of SHIFTed / composite expressions from several table fields vs bucket model", "iterations": n})
	case c.Case%2 == 0:
		n := c.Pick(1500, 6000)
		for i := 0; i < n && !c.Violated(); i++ {
			c05ExprCase(c)
		}
		c.Sample(map[string]interface{}{"kind": "a: expression homomorphism", "iterations": n})
	default:
		n := c.Pick(1500, 6000)
		for i := 0; i < n && !c.Violated(); i++ {
			c05SubMergeCase(c)
		}
		c.Sample(map[string]interface{}{"kind": "c: SubMerge vs bucket model", "iterations": n})
	}
}

// ------------------------------------------------------------------------------------------
// (a) expression homomorphism

var c05Fields = []string{"a", "b", "w"}

func c05Leaf(r *rand.Rand) expr.Expr {
	f := c05Fields[r.Intn(2)]
	var inner interface{} = f
	if r.Intn(4) == 0 {
		inner = expr.BOUNDED(f, float64(r.Intn(20)-10), float64(r.Intn(40)))
	}
	switch r.Intn(9) {
	case 0, 1:
		return expr.SUM(inner)
	case 2:
		return expr.MIN(inner)
	case 3:
		return expr.MAX(inner)
	case 4:
		return expr.COUNT(inner)
	case 5:
		return expr.AVG(inner)
	case 6:
		if r.Intn(2) == 0 {
			return expr.WAVG(inner, "w")
		}
		return expr.WAVG(inner, expr.CONST(float64(1+r.Intn(3))))
	case 7:
		prec := r.Intn(2)
		return expr.PERCENTILE(f, expr.CONST(float64(1+r.Intn(99))), 0, float64(20+r.Intn(60)), prec)
	default:
		return expr.SUM(f)
	}
}

func c05Cond(r *rand.Rand) goexpr.Expr {
	ops := []string{"=", "<>", "<", ">"}
	var e goexpr.Expr
	if r.Intn(2) == 0 {
		e, _ = goexpr.Binary(ops[r.Intn(2)], goexpr.Param("d"), goexpr.Constant([]string{"x", "y", "z"}[r.Intn(3)]))
	} else {
		e, _ = goexpr.Binary(ops[r.Intn(4)], goexpr.Param("n"), goexpr.Constant(r.Intn(4)))
	}
	return e
}

func c05Expr(r *rand.Rand, depth int) expr.Expr {
	if depth <= 0 || r.Intn(3) == 0 {
		return c05Leaf(r)
	}
	switch r.Intn(10) {
	case 0, 1, 2, 3:
		ops := []func(interface{}, interface{}) expr.Expr{expr.ADD, expr.SUB, expr.MULT, expr.DIV}
		return ops[r.Intn(4)](c05Expr(r, depth-1), c05ExprOrConst(r, depth-1))
	case 4:
		ops := []func(interface{}, interface{}) expr.Expr{expr.LT, expr.LTE, expr.EQ, expr.NEQ, expr.GTE, expr.GT}
		return ops[r.Intn(6)](c05Expr(r, depth-1), c05ExprOrConst(r, depth-1))
	case 5:
		if r.Intn(2) == 0 {
			return expr.AND(c05Expr(r, depth-1), c05Expr(r, depth-1))
		}
		return expr.OR(c05Expr(r, depth-1), c05Expr(r, depth-1))
	case 6, 7:
		return expr.IF(c05Cond(r), c05Expr(r, depth-1))
	case 8:
		return expr.SHIFT(c05Expr(r, depth-1), -time.Duration(1+r.Intn(3))*time.Second)
	default:
		e, _ := expr.UnaryMath([]string{"LN", "LOG2", "LOG10"}[r.Intn(3)], c05Expr(r, depth-1))
		return e
	}
}

func c05ExprOrConst(r *rand.Rand, depth int) interface{} {
	if r.Intn(5) == 0 {
		return expr.CONST(float64(r.Intn(5)))
	}
	return c05Expr(r, depth)
}

type c05Update struct {
	params expr.Map
	meta   bytemap.ByteMap
	dims   map[string]interface{}
}

func c05Updates(r *rand.Rand, n int, sameMeta bool) []c05Update {
	var out []c05Update
	var shared map[string]interface{}
	for i := 0; i < n; i++ {
		p := expr.Map{}
		for _, f := range c05Fields {
			if r.Intn(5) != 0 {
				if f == "w" {
					p[f] = float64(r.Intn(4))
				} else {
					p[f] = float64(r.Intn(161)-40) / 4
				}
			}
		}
		var d map[string]interface{}
		if sameMeta && shared != nil {
			d = shared
		} else {
			d = map[string]interface{}{}
			if r.Intn(6) != 0 {
				d["d"] = []string{"x", "y", "z"}[r.Intn(3)]
			}
			if r.Intn(6) != 0 {
				d["n"] = r.Intn(4)
			}
			shared = d
		}
		out = append(out, c05Update{params: p, meta: bytemap.New(d), dims: d})
	}
	return out
}

func c05Fold(e expr.Expr, ups []c05Update) []byte {
	b := make([]byte, e.EncodedWidth())
	for _, u := range ups {
		e.Update(b, u.params, u.meta)
	}
	return b
}

func c05GetEq(e expr.Expr, x, y []byte) (bool, string) {
	vx, sx, _ := e.Get(x)
	vy, sy, _ := e.Get(y)
	if sx != sy {
		return false, fmt.Sprintf("wasSet %v vs %v (values %v vs %v)", sx, sy, vx, vy)
	}
	if !c05FloatEq(vx, vy) {
		return false, fmt.Sprintf("value %v vs %v", vx, vy)
	}
	return true, ""
}

func c05FloatEq(a, b float64) bool {
	if math.IsNaN(a) || math.IsNaN(b) {
		return math.IsNaN(a) && math.IsNaN(b)
	}
	if a == b {
		return true
	}
	if math.IsInf(a, 0) || math.IsInf(b, 0) {
		return false
	}
	return math.Abs(a-b) <= 1e-9*math.Max(math.Abs(a), math.Abs(b))
}

func c05Merge(c *fw.Ctx, e expr.Expr, x, y []byte, what string) []byte {
	sx := append([]byte(nil), x...)
	sy := append([]byte(nil), y...)
	out := make([]byte, e.EncodedWidth())
	e.Merge(out, x, y)
	c.Obs("expr_merges", 1)
	if !bytes.Equal(sx, x) || !bytes.Equal(sy, y) {
		c.Violate("expr-merge-modifies-operand", "%s: Merge of %v modified an operand", what, e)
	}
	return out
}

func c05ExprCase(c *fw.Ctx) {
	r := c.Rand
	e := c05Expr(r, 1+r.Intn(3))
	if err := e.Validate(); err != nil {
		c.Obs("a_invalid_exprs", 1)
		return
	}
	c.Obs("a_exprs", 1)
	ups := c05Updates(r, r.Intn(9), false)
	// split in 3 (some parts may be empty)
	parts := make([][]c05Update, 3)
	for _, u := range ups {
		k := r.Intn(3)
		parts[k] = append(parts[k], u)
	}
	nonEmpty := 0
	for _, p := range parts {
		if len(p) > 0 {
			nonEmpty++
		}
	}
	if nonEmpty >= 2 {
		c.Nontrivial(true)
		c.Obs("a_nontrivial", 1)
	}
	c.HashAdd(e.String(), len(ups))
	full := c05Fold(e, ups)
	s := [][]byte{c05Fold(e, parts[0]), c05Fold(e, parts[1]), c05Fold(e, parts[2])}
	// operands updated in order within a part: equality of Get with the full fold in any merge order
	orders := [][3]int{{0, 1, 2}, {0, 2, 1}, {1, 0, 2}, {1, 2, 0}, {2, 0, 1}, {2, 1, 0}}
	for _, o := range orders {
		left := c05Merge(c, e, c05Merge(c, e, s[o[0]], s[o[1]], "left-assoc"), s[o[2]], "left-assoc")
		right := c05Merge(c, e, s[o[0]], c05Merge(c, e, s[o[1]], s[o[2]], "right-assoc"), "right-assoc")
		if ok, why := c05GetEq(e, left, full); !ok {
			c.ViolateData("expr-merge-vs-fold", map[string]interface{}{"expr": e.String(), "updates": c05Dump(ups), "order": o}, "expr %v: merge((s%d,s%d),s%d) != fold over all updates: %s", e, o[0], o[1], o[2], why)
			return
		}
		if ok, why := c05GetEq(e, right, full); !ok {
			c.ViolateData("expr-merge-vs-fold", map[string]interface{}{"expr": e.String(), "updates": c05Dump(ups), "order": o}, "expr %v: merge(s%d,(s%d,s%d)) != fold over all updates: %s", e, o[0], o[1], o[2], why)
			return
		}
	}

	// SubMergers: derive e from "table fields" (its own aggregate leaves) — all updates of a
	// stored row share the row's dimensions, so use one metadata for this sub-case.
	if r.Intn(2) == 0 {
		c05SubMergersCase(c)
	}
}

func c05Dump(ups []c05Update) []interface{} {
	var out []interface{}
	for _, u := range ups {
		out = append(out, map[string]interface{}{"params": u.params, "dims": u.dims})
	}
	return out
}

// c05SubMergersCase: table fields F (aggregates), an out expression composed of them; states of F
// for several fine periods are sub-merged into one out state and compared with the out expression
// folded over the raw updates.
func c05SubMergersCase(c *fw.Ctx) {
	r := c.Rand
	nf := 1 + r.Intn(3)
	var fields []expr.Expr
	seen := map[string]bool{}
	for len(fields) < nf {
		f := c05Leaf(r)
		if seen[f.String()] || f.Validate() != nil {
			continue
		}
		seen[f.String()] = true
		fields = append(fields, f)
	}
	// out expression: combination of the table fields
	pick := func() expr.Expr { return fields[r.Intn(len(fields))] }
	var out expr.Expr
	switch r.Intn(5) {
	case 0:
		out = pick()
	case 1:
		out = expr.ADD(pick(), pick())
	case 2:
		out = expr.DIV(pick(), pick())
	case 3:
		out = expr.MULT(expr.SUB(pick(), pick()), expr.CONST(2))
	default:
		out = expr.GT(pick(), expr.CONST(1))
	}
	if out.Validate() != nil {
		return
	}
	sms := out.SubMergers(fields)
	periods := 1 + r.Intn(4)
	var all []c05Update
	outState := make([]byte, out.EncodedWidth())
	shared := c05Updates(r, 1, true)[0]
	for p := 0; p < periods; p++ {
		ups := c05Updates(r, r.Intn(4), true)
		for i := range ups {
			ups[i].meta = shared.meta
			ups[i].dims = shared.dims
		}
		all = append(all, ups...)
		for i, f := range fields {
			st := c05Fold(f, ups)
			snap := append([]byte(nil), st...)
			if sms[i] != nil {
				sms[i](outState, st, time.Second, shared.meta)
				c.Obs("a_submerges", 1)
			}
			if !bytes.Equal(snap, st) {
				c.Violate("submerge-modifies-operand", "SubMerger of %v from field %v modified its input state", out, f)
			}
		}
	}
	full := c05Fold(out, all)
	if ok, why := c05GetEq(out, outState, full); !ok {
		var fs []string
		for _, f := range fields {
			fs = append(fs, f.String())
		}
		c.ViolateData("submergers-vs-fold", map[string]interface{}{"out": out.String(), "fields": fs, "updates": c05Dump(all)}, "out expr %v sub-merged from table fields %v over %d periods != fold over raw updates: %s", out, fs, periods, why)
	}
}

// ------------------------------------------------------------------------------------------
// sequences over a 6-period window

const c05W = 6

var c05Base = time.Date(2020, 1, 1, 0, 0, 0, 0, time.UTC)
var c05Res = time.Second

type c05Seq struct {
	start int    // newest period index 1..W (period i ends at base+i*res); 0 = empty sequence
	set   []bool // set[k] is period start-k
	seed  float64
}

func c05AllSeqs() []c05Seq {
	out := []c05Seq{{}}
	for s := 1; s <= c05W; s++ {
		for l := 1; l <= s; l++ {
			for m := 0; m < 1<<uint(l); m++ {
				set := make([]bool, l)
				for k := 0; k < l; k++ {
					set[k] = m&(1<<uint(k)) != 0
				}
				out = append(out, c05Seq{start: s, set: set})
			}
		}
	}
	return out
}

func c05End(i int) time.Time { return c05Base.Add(time.Duration(i) * c05Res) }

// build materialises the sequence: period i (if set) is updated with value base*2^i once, plus a second update for AVG-like widths.
func (s c05Seq) build(e expr.Expr, mult float64) encoding.Sequence {
	if s.start == 0 {
		return nil
	}
	w := e.EncodedWidth()
	seq := encoding.NewSequence(w, len(s.set))
	seq.SetUntil(c05End(s.start))
	for k, on := range s.set {
		if on {
			i := s.start - k
			seq.UpdateValueAt(k, e, expr.Map{"v": mult * math.Pow(2, float64(i))}, nil)
		}
	}
	return seq
}

// model value of period i of sequence s: (set, state bytes)
func (s c05Seq) period(e expr.Expr, mult float64, i int) []byte {
	b := make([]byte, e.EncodedWidth())
	if s.start == 0 {
		return b
	}
	k := s.start - i
	if k < 0 || k >= len(s.set) || !s.set[k] {
		return b
	}
	e.Update(b, expr.Map{"v": mult * math.Pow(2, float64(i))}, nil)
	return b
}

func c05SeqGet(seq encoding.Sequence, e expr.Expr, i int) (float64, bool) {
	if len(seq) == 0 {
		return 0, false
	}
	return seq.ValueAtTime(c05End(i), e, c05Res)
}

func c05Bounds() []time.Time {
	out := []time.Time{{}}
	for i := 0; i <= c05W; i++ {
		out = append(out, c05End(i))
		if i < c05W {
			out = append(out, c05End(i).Add(c05Res/3))
		}
	}
	return out
}

func c05SeqMergeExhaustive(c *fw.Ctx, e expr.Expr) {
	seqs := c05AllSeqs()
	bounds := c05Bounds()
	n := 0
	nontrivial := 0
	for ai, a := range seqs {
		sa := a.build(e, 1)
		for bi, b := range seqs {
			sb := b.build(e, 4096)
			for _, tb := range bounds {
				n++
				snapA := append([]byte(nil), sa...)
				snapB := append([]byte(nil), sb...)
				m := sa.Merge(sb, e, c05Res, tb)
				if !bytes.Equal(snapA, sa) || !bytes.Equal(snapB, sb) {
					c.Violate("seq-merge-modifies-operand", "Sequence.Merge modified an operand: a=%+v b=%+v truncateBefore=%v", a, b, tb)
					return
				}
				overlap := false
				for i := 1; i <= c05W; i++ {
					pa := a.period(e, 1, i)
					pb := b.period(e, 4096, i)
					want := make([]byte, e.EncodedWidth())
					e.Merge(want, pa, pb)
					wv, ws, _ := e.Get(want)
					_, as, _ := e.Get(pa)
					_, bs, _ := e.Get(pb)
					if as && bs {
						overlap = true
					}
					if !tb.IsZero() && c05End(i).Before(tb) {
						continue // expired: don't-care
					}
					gv, gs := c05SeqGet(m, e, i)
					if gs != ws || !c05FloatEq(gv, wv) {
						c.ViolateData("seq-merge-vs-model", map[string]interface{}{"a": fmt.Sprint(a), "b": fmt.Sprint(b), "truncateBefore": tb.String(), "expr": e.String()},
							"Sequence.Merge(%v): a=#%d%+v b=#%d%+v truncateBefore=%v: period ending %v has (%v,%v), model says (%v,%v)", e, ai, a, bi, b, tb, c05End(i), gv, gs, wv, ws)
						return
					}
				}
				if overlap {
					nontrivial++
				}
			}
		}
	}
	c.Obs("b_seq_merges", int64(n))
	c.Obs("b_seq_merges_with_overlap", int64(nontrivial))
	c.Nontrivial(nontrivial > 0)
	c.HashAdd("seqmerge", e.String())
	c.Sample(map[string]interface{}{"kind": "b: Sequence.Merge exhaustive", "expr": e.String(), "window_periods": c05W, "sequences": len(seqs), "truncateBefore_choices": len(bounds), "merges_checked": n})
}

func c05TruncateExhaustive(c *fw.Ctx, e expr.Expr) {
	seqs := c05AllSeqs()
	bounds := c05Bounds()
	w := e.EncodedWidth()
	n, removing := 0, 0
	for si, s := range seqs {
		for _, asOf := range bounds {
			for _, until := range bounds {
				orig := s.build(e, 1)
				snap := append([]byte(nil), orig...)
				n++
				tr := orig.Truncate(w, c05Res, asOf, until)
				if !bytes.Equal(snap, orig) {
					c.ViolateData("truncate-modifies-operand", map[string]interface{}{"seq": fmt.Sprint(s), "asOf": asOf.String(), "until": until.String()},
						"Sequence.Truncate modified its operand: seq=#%d%+v asOf=%v until=%v: operand bytes before %x after %x", si, s, asOf, until, snap, []byte(orig))
					return
				}
				removed := false
				for i := 1; i <= c05W; i++ {
					end := c05End(i)
					begin := end.Add(-c05Res)
					ov, os := c05SeqGet(snap, e, i)
					inside := (asOf.IsZero() || !begin.Before(asOf)) && (until.IsZero() || !end.After(until))
					outside := (!asOf.IsZero() && !end.After(asOf)) || (!until.IsZero() && !begin.Before(until))
					gv, gs := c05SeqGet(tr, e, i)
					if inside {
						if gs != os || gv != ov {
							c.Violate("truncate-drops-inside", "Sequence.Truncate: seq=#%d%+v asOf=%v until=%v: period ending %v lies inside but is (%v,%v), was (%v,%v)", si, s, asOf, until, end, gv, gs, ov, os)
							return
						}
					} else if outside {
						if os {
							removed = true
						}
						if gs {
							c.Violate("truncate-keeps-outside", "Sequence.Truncate: seq=#%d%+v asOf=%v until=%v: period ending %v lies outside but is still present (%v)", si, s, asOf, until, end, gv)
							return
						}
					}
				}
				if removed {
					removing++
				}
			}
		}
	}
	c.Obs("d_truncates", int64(n))
	c.Obs("d_truncates_removing_set_period", int64(removing))
	c.Nontrivial(removing > 0)
	c.HashAdd("truncate", e.String())
	c.Sample(map[string]interface{}{"kind": "d: Sequence.Truncate exhaustive", "expr": e.String(), "sequences": len(seqs), "bounds": len(bounds), "calls": n})
}

// ------------------------------------------------------------------------------------------
// (c) SubMerge vs bucket model

func c05SubMergeCase(c *fw.Ctx) {
	r := c.Rand
	var e expr.Expr
	switch r.Intn(4) {
	case 0:
		e = expr.SUM("v")
	case 1:
		e = expr.AVG("v")
	case 2:
		e = expr.MAX("v")
	default:
		e = expr.ADD(expr.SUM("v"), expr.COUNT("v"))
	}
	scale := 1 + r.Intn(4)
	P := time.Duration(scale) * c05Res
	const span = 14 // fine periods 1..span
	// window: until aligned to the fine grid anywhere in [4, span+2]; asOf aligned below it
	untilI := 4 + r.Intn(span-1)
	asOfI := r.Intn(untilI)
	until := c05End(untilI)
	asOf := c05End(asOfI)
	stride := time.Duration(0)
	if scale > 1 && r.Intn(4) == 0 {
		stride = time.Duration(1+r.Intn(scale-1)) * c05Res
	}
	nIn := 1 + r.Intn(3)
	type in struct {
		seq  encoding.Sequence
		vals map[int]float64
	}
	var ins []in
	for k := 0; k < nIn; k++ {
		start := 1 + r.Intn(span)
		l := 1 + r.Intn(start)
		seq := encoding.NewSequence(e.EncodedWidth(), l)
		seq.SetUntil(c05End(start))
		vals := map[int]float64{}
		for j := 0; j < l; j++ {
			if r.Intn(3) != 0 {
				v := float64(r.Intn(64)) / 4
				vals[start-j] = v
				seq.UpdateValueAt(j, e, expr.Map{"v": v}, nil)
			}
		}
		ins = append(ins, in{seq, vals})
	}
	sm := e.SubMergers([]expr.Expr{e})[0]
	var out encoding.Sequence
	order := r.Perm(nIn)
	for _, k := range order {
		snap := append([]byte(nil), ins[k].seq...)
		out = out.SubMerge(ins[k].seq, nil, P, c05Res, e, e, sm, asOf, until, stride)
		c.Obs("c_submerges", 1)
		if !bytes.Equal(snap, ins[k].seq) {
			c.Violate("seq-submerge-modifies-operand", "Sequence.SubMerge modified its input: scale=%d asOf=%v until=%v", scale, asOf, until)
			return
		}
	}
	// model: bucket j ends at until - j*P; fine period i (end E_i) with asOf < E_i <= until belongs to bucket floor((until-E_i)/P)
	model := map[int][]byte{}
	multi := false
	counts := map[int]int{}
	for _, k := range order {
		for i, v := range ins[k].vals {
			if i <= asOfI || i > untilI {
				continue
			}
			off := untilI - i // in fine periods
			j := off / scale
			if stride > 0 && off%scale >= int(stride/c05Res) {
				continue
			}
			st, ok := model[j]
			if !ok {
				st = make([]byte, e.EncodedWidth())
				model[j] = st
			}
			one := make([]byte, e.EncodedWidth())
			e.Update(one, expr.Map{"v": v}, nil)
			e.Merge(st, st, one)
			counts[j]++
			if counts[j] > 1 {
				multi = true
			}
		}
	}
	if multi {
		c.Nontrivial(true)
		c.Obs("c_nontrivial", 1)
	}
	c.HashAdd(e.String(), scale, asOfI, untilI, nIn, len(model))
	maxJ := (untilI-asOfI)/scale + 2
	for j := 0; j <= maxJ; j++ {
		T := until.Add(-time.Duration(j) * P)
		var gv float64
		var gs bool
		if len(out) > 0 {
			gv, gs = out.ValueAtTime(T, e, P)
			// ValueAtTime rounds relative to the sequence's own until; make sure T is on its grid
			if out.Until().Sub(T)%P != 0 {
				c.Violate("seq-submerge-grid", "SubMerge result until=%v is not on the bucket grid anchored at until=%v with P=%v", out.Until(), until, P)
				return
			}
		}
		var wv float64
		var ws bool
		if st, ok := model[j]; ok {
			wv, ws, _ = e.Get(st)
		}
		if gs != ws || !c05FloatEq(gv, wv) {
			var dump []interface{}
			for _, k := range order {
				dump = append(dump, map[string]interface{}{"until_index": int(ins[k].seq.Until().Sub(c05Base) / c05Res), "vals": fmt.Sprint(ins[k].vals)})
			}
			c.ViolateData("seq-submerge-vs-model", map[string]interface{}{"expr": e.String(), "scale": scale, "asOfIndex": asOfI, "untilIndex": untilI, "stride": stride.String(), "inputs": dump},
				"Sequence.SubMerge(%v) scale=%d stride=%v window=(%d,%d]: bucket ending %v is (%v,%v), model says (%v,%v)", e, scale, stride, asOfI, untilI, T, gv, gs, wv, ws)
			return
		}
	}
	// nothing outside the window
	if len(out) > 0 {
		if out.Until().After(until) {
			c.Violate("seq-submerge-window", "SubMerge result until %v is after window until %v", out.Until(), until)
		}
	}
}

// ------------------------------------------------------------------------------------------
// (c') SubMerge of shifted and composite expressions fed by several table fields, the way the
// group stage does it (bytetree.doUpdate): out = out.SubMerge(in_i, ..., outEx, inEx_i, subMergers[i], ...)

func c05ShiftCase(c *fw.Ctx) {
	r := c.Rand
	inEx := []expr.Expr{expr.SUM("a"), expr.SUM("b")}
	k1 := 1 + r.Intn(3)
	k2 := 1 + r.Intn(3)
	type leaf struct {
		field int
		back  int // shift back in fine periods
		sign  float64
	}
	var out expr.Expr
	var leaves []leaf
	sh := func(e interface{}, k int) expr.Expr { return expr.SHIFT(e, -time.Duration(k)*c05Res) }
	switch r.Intn(5) {
	case 0:
		out = sh(inEx[0], k1)
		leaves = []leaf{{0, k1, 1}}
	case 1:
		out = sh(expr.ADD(inEx[0], inEx[1]), k1)
		leaves = []leaf{{0, k1, 1}, {1, k1, 1}}
	case 2:
		out = expr.ADD(inEx[0], sh(inEx[1], k1))
		leaves = []leaf{{0, 0, 1}, {1, k1, 1}}
	case 3:
		out = expr.SUB(sh(inEx[0], k1), sh(inEx[1], k2))
		leaves = []leaf{{0, k1, 1}, {1, k2, -1}}
	default:
		out = expr.ADD(inEx[0], inEx[1])
		leaves = []leaf{{0, 0, 1}, {1, 0, 1}}
	}
	if out.Validate() != nil {
		return
	}
	scale := 1 + r.Intn(3)
	P := time.Duration(scale) * c05Res
	const span = 16
	untilI := 6 + r.Intn(span-4)
	asOfI := r.Intn(untilI - 1)
	until := c05End(untilI)
	asOf := c05End(asOfI)
	vals := make([]map[int]float64, 2)
	seqs := make([]encoding.Sequence, 2)
	for f := 0; f < 2; f++ {
		start := 1 + r.Intn(span)
		l := 1 + r.Intn(start)
		seq := encoding.NewSequence(inEx[f].EncodedWidth(), l)
		seq.SetUntil(c05End(start))
		vals[f] = map[int]float64{}
		for j := 0; j < l; j++ {
			if r.Intn(4) != 0 {
				v := float64(1+r.Intn(64)) / 4
				vals[f][start-j] = v
				seq.UpdateValueAt(j, inEx[f], expr.Map{[]string{"a", "b"}[f]: v}, nil)
			}
		}
		seqs[f] = seq
	}
	sms := out.SubMergers(inEx)
	var res encoding.Sequence
	for f := 0; f < 2; f++ {
		if sms[f] == nil {
			continue
		}
		snap := append([]byte(nil), seqs[f]...)
		res = res.SubMerge(seqs[f], nil, P, c05Res, out, inEx[f], sms[f], asOf, until, 0)
		c.Obs("c_shift_submerges", 1)
		if !bytes.Equal(snap, seqs[f]) {
			c.Violate("seq-submerge-modifies-operand", "Sequence.SubMerge (shifted) modified its input")
			return
		}
	}
	// model
	type acc struct {
		v   float64
		set bool
	}
	model := map[int]*acc{}
	contributions := 0
	for _, lf := range leaves {
		for e, v := range vals[lf.field] {
			pos := e + lf.back // the fine period at which the value becomes visible
			if pos <= asOfI || pos > untilI {
				continue
			}
			j := (untilI - pos) / scale
			a := model[j]
			if a == nil {
				a = &acc{}
				model[j] = a
			}
			a.v += lf.sign * v
			a.set = true
			contributions++
		}
	}
	if contributions >= 2 {
		c.Nontrivial(true)
		c.Obs("c_shift_nontrivial", 1)
	}
	c.HashAdd(out.String(), scale, asOfI, untilI, contributions)
	maxJ := (untilI-asOfI)/scale + 2
	for j := 0; j <= maxJ; j++ {
		T := until.Add(-time.Duration(j) * P)
		var gv float64
		var gs bool
		if len(res) > 0 {
			gv, gs = res.ValueAtTime(T, out, P)
		}
		var wv float64
		var ws bool
		if a := model[j]; a != nil {
			wv, ws = a.v, a.set
		}
		if gs != ws || !c05FloatEq(gv, wv) {
			c.ViolateData("seq-submerge-shift-vs-model", map[string]interface{}{"out": out.String(), "scale": scale, "asOfIndex": asOfI, "untilIndex": untilI, "a": fmt.Sprint(vals[0]), "b": fmt.Sprint(vals[1])},
				"SubMerge of %v from table fields [SUM(a), SUM(b)] scale=%d window=(%d,%d]: bucket ending at index %d is (%v,%v), model says (%v,%v); a=%v b=%v", out, scale, asOfI, untilI, untilI-j*scale, gv, gs, wv, ws, vals[0], vals[1])
			return
		}
	}
}
