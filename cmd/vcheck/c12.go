package main

// C12 — replication is exactly-once per partition across restarts and reconnects.
// Real server nodes in-process with cut-able TCP proxies between followers and leaders; fault
// sequences interleaved with batches of unique ids; after healing, barrier quiescence and an
// exactly-once decode of every follower table.

import (
	"fmt"
	"math"
	"os"
	"os/exec"
	"strings"
	"time"

	"verif/internal/cluster"
	"verif/internal/dbh"
	"verif/internal/fw"
)

func init() {
	extraCommands["clusternode"] = cluster.NodeMain
	fw.Register(&fw.Property{
		ID:    "C12",
		Level: "fault_enumeration",
		Rule: "one case = one cluster (1-2 leaders, 2-3 partitions, 1-2 followers per partition, real gRPC/TLS, TCP proxies on every follower-leader link) running a PRNG fault sequence of length 3-8 interleaved with batches of unique ids (value 3^j encoding) inserted through the leaders: " +
			"stop/start follower (clean), restart follower from an older copy of its directory taken while it was stopped, restart leader, cut/restore link, delay link; " +
			"half of the cases run every follower as a separate OS process and add real crash images: SIGKILL of a follower at an arbitrary instant, and a follower that kills itself at the n-th hit of an instrumented point of its flush / offset-file / apply protocol (tables with very different flush latencies, so the tables of a crash image are unevenly persisted), then restarts on the directory it left behind; " +
			"after all faults are healed two rounds of barrier points establish convergence; then every table on every follower of partition p must decode to exactly the acknowledged ids routed to p (each once, none of another partition), redundant followers must be identical, and leader queries must equal a standalone database fed the same points; " +
			"non-trivial = a fault hit while entries for that follower were submitted but not yet delivered or while it was down and missing batches; distinct by fault sequence",
		Assumptions: []string{"in-process cases stop followers cleanly and copy directories only while the follower is stopped; process-mode cases produce crash images by real process kills (no power-loss model); leaders are restarted cleanly", "bounded progress: convergence is awaited for up to 180s; after that a loss is only declared once the leaders' follow pipelines have been completely idle for 45s and the barrier is still missing on a follower that has joined, anything else is inconclusive"},
		Cases: func(tier string) int {
			if tier == "quick" {
				return 8
			}
			return 96
		},
		Batch:            1,
		Workers:          4,
		PanicIsViolation: true,
		BenignCrash:      cluster.StartupRace,
		BatchTimeout:     25 * time.Minute,
		Env:              []string{"VERIF_TIMER_DIV=10"},
		Run:              runC12,
	})
}

func c12Dims(i int) map[string]interface{} {
	return map[string]interface{}{"k": fmt.Sprintf("c%05d", i/30), "odd": i % 2}
}

// crash points a follower process can be told to kill itself at (hit while it applies and persists
// replicated entries); the occurrence is drawn per use
var c12CrashPoints = []string{"flush.start", "flush.afterHeader", "flush.row", "flush.afterWrite", "flush.afterSync", "flush.beforeRename", "flush.afterRename", "flush.afterSwap",
	"offsets.afterWrite", "offsets.afterSync", "offsets.beforeRename", "flush.offsetsOnly", "rs.afterInsert", "remove.before", "remove.after"}

func runC12(c *fw.Ctx) {
	r := c.Rand
	// odd cases: followers are separate OS processes that can be crashed
	crashMode := c.Case%2 == 1
	N := 2 + r.Intn(2)
	nLeaders := 1 + r.Intn(2)
	red := 1 + r.Intn(2)
	type tdef struct {
		name   string
		sql    string
		partBy []string
		where  bool
	}
	tables := []tdef{
		{"ta", "SELECT SUM(v) AS v FROM inbound GROUP BY k, period(1h)", []string{"k"}, false},
		{"tb", "SELECT SUM(v) AS v FROM inbound GROUP BY *, period(1h)", nil, false},
		{"tw", "SELECT SUM(v) AS v FROM inbound WHERE odd = 1 GROUP BY k, period(1h)", []string{"k"}, true},
	}
	var cdefs []cluster.TableDef
	var sdefs []dbh.TableDef
	for ti, t := range tables {
		maxFlush := time.Duration(30+r.Intn(300)) * time.Millisecond
		if crashMode {
			// very different flush latencies: at a crash the tables are persisted up to different offsets
			slow := time.Duration(700+r.Intn(2000)) * time.Millisecond
			if c.Case%4 == 3 {
				// one table is never flushed by its timer: a crash image holds nothing of it unless the
				// follower was stopped cleanly before
				slow = time.Hour
			}
			maxFlush = []time.Duration{time.Duration(15+r.Intn(40)) * time.Millisecond, slow, time.Duration(100+r.Intn(300)) * time.Millisecond}[(ti+c.Case/2)%3]
		}
		cdefs = append(cdefs, cluster.TableDef{Name: t.name, SQL: t.sql, Retention: 48 * time.Hour, MaxFlush: maxFlush, PartitionBy: t.partBy})
		sdefs = append(sdefs, dbh.TableDef{Name: t.name, SQL: t.sql, Retention: 48 * time.Hour, Stream: "inbound", PartitionBy: t.partBy})
	}
	// every fourth in-process case runs the leaders with a tiny per-follower send queue, so that a delayed,
	// cut or stopped follower makes the queue fill up (the leader must then wait, not drop)
	followQueue := 0
	if c.Case%8 == 2 {
		followQueue = 2 + r.Intn(20)
		c.Obs("scenarios_with_tiny_follow_queue", 1)
	}
	cl, err := cluster.New(cluster.Config{Dir: c.Dir + "/cluster", Tables: cdefs, NumLeaders: nLeaders, NumPartitions: N, Redundancy: red, Proxied: true, QueryTimeout: 60 * time.Second,
		ProcFollowers: crashMode, NodeBin: fw.BinDir() + "/" + c12NodeBin(c), LeaderMaxFollowQueue: followQueue})
	if err != nil {
		c.Inconclusive("cluster: %v", err)
		return
	}
	defer cl.StopAll()
	if err := cl.StartAll(); err != nil {
		c.Inconclusive("cluster start: %v", err)
		return
	}
	solo, err := dbh.Open(c.Dir+"/solo", sdefs, dbh.Opts{})
	if err != nil {
		c.Inconclusive("standalone: %v", err)
		return
	}
	defer solo.Close()
	base := time.Now().Add(-3 * time.Hour).Truncate(time.Hour)
	nextID := 0
	acked := map[int]bool{}
	var history []string
	note := func(f string, a ...interface{}) { history = append(history, fmt.Sprintf(f, a...)) }
	leaderUp := make([]bool, nLeaders)
	for i := range leaderUp {
		leaderUp[i] = true
	}
	insertBatch := func(n int) {
		for i := 0; i < n; i++ {
			id := nextID
			nextID++
			// pick a leader that is up
			li := id % nLeaders
			if !leaderUp[li] {
				li = (li + 1) % nLeaders
				if !leaderUp[li] {
					continue
				}
			}
			ts := base.Add(time.Duration(id%3000) * time.Second)
			vals := map[string]interface{}{"v": math.Pow(3, float64(id%30))}
			if err := cl.Leaders[li].DB.Insert("inbound", ts, c12Dims(id), vals); err != nil {
				continue
			}
			acked[id] = true
			solo.Insert("inbound", ts, c12Dims(id), vals)
		}
	}
	followers := cl.AllFollowers()
	snapshots := map[*cluster.Node]string{}
	faultDuringTraffic := false
	crashes, crashPointsHit := 0, 0
	insertBatch(40 + r.Intn(60))
	steps := 3 + r.Intn(6)
	for s := 0; s < steps; s++ {
		f := followers[r.Intn(len(followers))]
		kind := r.Intn(8)
		if crashMode && r.Intn(2) == 0 {
			kind = 8 + r.Intn(2)
		}
		switch kind {
		case 8:
			// crash the follower at an arbitrary instant, possibly with traffic right before
			if !f.Up() {
				if err := f.Start(); err != nil {
					c.Inconclusive("restart failed: %v", err)
					return
				}
			}
			insertBatch(10 + r.Intn(50))
			time.Sleep(time.Duration(r.Intn(60000)) * time.Microsecond)
			f.Kill()
			crashes++
			note("step %d: SIGKILL follower %d.%d", s, f.Partition, f.ID)
			faultDuringTraffic = true
			if r.Intn(2) == 0 {
				insertBatch(10 + r.Intn(40))
			}
			if err := f.Start(); err != nil {
				c.Inconclusive("restart after kill failed: %v", err)
				return
			}
			note("step %d: start follower %d.%d on the directory the kill left behind", s, f.Partition, f.ID)
		case 9:
			// the follower kills itself at the n-th hit of an instrumented point
			if f.Up() {
				if r.Intn(2) == 0 {
					f.Stop()
				} else {
					f.Kill()
					crashes++
				}
			}
			pt := c12CrashPoints[r.Intn(len(c12CrashPoints))]
			occ := 1 + r.Intn(6)
			if pt == "rs.afterInsert" || pt == "flush.row" {
				occ = 1 + r.Intn(80)
			}
			if err := f.StartWithEnv([]string{fmt.Sprintf("VERIF_CRASH=%s:%d", pt, occ)}); err != nil {
				if f.Exited() {
					// the point was reached while the node was still starting up: a crash image all the same
					crashes++
					crashPointsHit++
					note("step %d: follower %d.%d restarted with crash point %s:%d and died at it during start-up", s, f.Partition, f.ID, pt, occ)
				} else {
					c.Inconclusive("restart with crash point failed: %v", err)
					return
				}
			} else {
				for b := 0; b < 4 && !f.Exited(); b++ {
					insertBatch(15 + r.Intn(40))
					f.WaitExit(time.Duration(300+r.Intn(1200)) * time.Millisecond)
				}
				if f.WaitExit(2 * time.Second) {
					crashes++
					crashPointsHit++
					note("step %d: follower %d.%d restarted with crash point %s:%d and died at it", s, f.Partition, f.ID, pt, occ)
				} else {
					f.Kill()
					crashes++
					note("step %d: follower %d.%d restarted with crash point %s:%d (not reached), SIGKILL instead", s, f.Partition, f.ID, pt, occ)
				}
			}
			faultDuringTraffic = true
			if r.Intn(2) == 0 {
				insertBatch(10 + r.Intn(40))
			}
			if err := f.Start(); err != nil {
				c.Inconclusive("restart after crash failed: %v", err)
				return
			}
			note("step %d: start follower %d.%d on the directory the crash left behind", s, f.Partition, f.ID)
		case 0, 1:
			if f.Up() {
				f.Stop()
				note("step %d: stop follower %d.%d", s, f.Partition, f.ID)
				faultDuringTraffic = true
			} else {
				if err := f.Start(); err != nil {
					c.Inconclusive("restart failed: %v", err)
					return
				}
				note("step %d: start follower %d.%d", s, f.Partition, f.ID)
			}
		case 2:
			// take a copy of the (stopped) follower's directory
			if f.Up() {
				f.Stop()
			}
			snap := fmt.Sprintf("%s/snap-%d", c.Dir, s)
			if out, err := exec.Command("cp", "-a", f.Dir, snap).CombinedOutput(); err != nil {
				c.Inconclusive("snapshot failed: %v %s", err, out)
				return
			}
			snapshots[f] = snap
			if err := f.Start(); err != nil {
				c.Inconclusive("restart failed: %v", err)
				return
			}
			note("step %d: stop follower %d.%d, copy its directory, start it again", s, f.Partition, f.ID)
		case 3:
			// restart the follower from the older copy
			if snap, ok := snapshots[f]; ok {
				if f.Up() {
					f.Stop()
				}
				os.RemoveAll(f.Dir)
				if out, err := exec.Command("cp", "-a", snap, f.Dir).CombinedOutput(); err != nil {
					c.Inconclusive("restore failed: %v %s", err, out)
					return
				}
				if err := f.Start(); err != nil {
					c.Inconclusive("restart failed: %v", err)
					return
				}
				note("step %d: restart follower %d.%d from its older directory copy", s, f.Partition, f.ID)
				faultDuringTraffic = true
			}
		case 4:
			li := r.Intn(nLeaders)
			if leaderUp[li] {
				cl.Leaders[li].Stop()
				leaderUp[li] = false
				note("step %d: stop leader %d", s, cl.Leaders[li].ID)
				if r.Intn(2) == 0 || nLeaders == 1 {
					if err := cl.Leaders[li].Start(); err != nil {
						c.Inconclusive("leader restart failed: %v", err)
						return
					}
					leaderUp[li] = true
					note("step %d: start leader %d again", s, cl.Leaders[li].ID)
				}
			} else {
				if err := cl.Leaders[li].Start(); err != nil {
					c.Inconclusive("leader restart failed: %v", err)
					return
				}
				leaderUp[li] = true
				note("step %d: start leader %d", s, cl.Leaders[li].ID)
			}
		case 5, 6:
			px := cl.ProxiesOf(f)
			p := px[r.Intn(len(px))]
			if r.Intn(2) == 0 {
				// the link first swallows traffic silently (the leader keeps sending), then breaks
				p.Blackhole()
				note("step %d: a link of follower %d.%d silently swallows traffic", s, f.Partition, f.ID)
				insertBatch(20 + r.Intn(40))
				time.Sleep(time.Duration(100+r.Intn(800)) * time.Millisecond)
			}
			p.Cut()
			note("step %d: cut a link of follower %d.%d", s, f.Partition, f.ID)
			faultDuringTraffic = true
			if r.Intn(2) == 0 {
				// traffic while the link is down (the leader notices the broken connection)
				insertBatch(20 + r.Intn(40))
				time.Sleep(time.Duration(100+r.Intn(1500)) * time.Millisecond)
			}
			p.Restore()
			note("step %d: restore the link", s)
			// give the follower's reconnect loop (1s back-off) a chance before the next batch
			time.Sleep(time.Duration(r.Intn(2500)) * time.Millisecond)
		default:
			px := cl.ProxiesOf(f)
			p := px[r.Intn(len(px))]
			p.SetDelay(time.Duration(1+r.Intn(20)) * time.Millisecond)
			note("step %d: delay a link of follower %d.%d", s, f.Partition, f.ID)
		}
		insertBatch(20 + r.Intn(60))
		time.Sleep(time.Duration(r.Intn(400)) * time.Millisecond)
	}
	// heal everything
	for li := range leaderUp {
		if !leaderUp[li] {
			if err := cl.Leaders[li].Start(); err != nil {
				c.Inconclusive("leader restart failed: %v", err)
				return
			}
			leaderUp[li] = true
		}
	}
	for _, f := range followers {
		for _, p := range cl.ProxiesOf(f) {
			p.Restore()
			p.SetDelay(0)
		}
		if !f.Up() {
			if err := f.Start(); err != nil {
				c.Inconclusive("follower restart failed: %v", err)
				return
			}
		}
	}
	note("all nodes up, links restored")
	c.HashAdd(history)
	insertBatch(10)
	// two rounds of barriers
	for round := 0; round < 2; round++ {
		want := map[*cluster.Node]map[string][]string{}
		for li := range cl.Leaders {
			covered := map[string]bool{}
			for j := 0; j < 300; j++ {
				dims := map[string]interface{}{"k": fmt.Sprintf("zzbar-%d-%d-%d", round, li, j), "odd": 1}
				useful := false
				for _, t := range tables {
					if !covered[fmt.Sprintf("%d/%s", cluster.PartitionFor(dims, t.partBy, N), t.name)] {
						useful = true
					}
				}
				if !useful {
					continue
				}
				ts := base.Add(time.Hour)
				vals := map[string]interface{}{"v": 1.0}
				// a leader that has just been started again refuses inserts until it has applied its schema
				var err error
				for until := time.Now().Add(30 * time.Second); ; {
					if err = cl.Leaders[li].DB.Insert("inbound", ts, dims, vals); err == nil || time.Now().After(until) {
						break
					}
					time.Sleep(50 * time.Millisecond)
				}
				if err != nil {
					c.Inconclusive("barrier insert failed: %v", err)
					return
				}
				solo.Insert("inbound", ts, dims, vals)
				for _, t := range tables {
					p := cluster.PartitionFor(dims, t.partBy, N)
					covered[fmt.Sprintf("%d/%s", p, t.name)] = true
					for _, f := range cl.Followers[p] {
						if want[f] == nil {
							want[f] = map[string][]string{}
						}
						want[f][t.name] = append(want[f][t.name], dims["k"].(string))
					}
				}
			}
		}
		deadline := time.Now().Add(180 * time.Second)
		lateCheck := false
		for {
			missing := ""
			for f, per := range want {
				for tbl, keys := range per {
					res := f.Query(ctxBackground(), "SELECT _points FROM "+tbl, true)
					have := map[string]bool{}
					for i := range res.Rows {
						if k, ok := res.Rows[i].Dims["k"].(string); ok {
							have[k] = true
						}
					}
					for _, k := range keys {
						if !have[k] {
							missing = fmt.Sprintf("follower %d.%d table %s lacks barrier %s", f.Partition, f.ID, tbl, k)
						}
					}
				}
			}
			if missing == "" {
				break
			}
			if time.Now().After(deadline) && !lateCheck {
				// not there yet: either slow (loaded machine) or lost. Wait until the leader-side pipeline has
				// been completely idle for 45s, then look once more.
				if !c10Drained(45 * time.Second) {
					c.Inconclusive("no convergence within 180s and entries still in flight: %s", missing)
					return
				}
				lateCheck = true
				continue
			}
			if lateCheck {
				// a follower that holds nothing at all has not (re)joined its leaders yet: the leaders' pipelines look
				// idle because they have nothing to send to a follower they do not know of
				for _, f := range followers {
					rows := 0
					for _, t := range tables {
						rows += len(f.Query(ctxBackground(), "SELECT _points FROM "+t.name, true).Rows)
					}
					if rows == 0 {
						c.Inconclusive("follower %d.%d holds nothing in any table after the watchdog (not joined on this loaded machine?): %s", f.Partition, f.ID, missing)
						return
					}
				}
				c.ViolateData("c12-barrier-lost", history, "after all faults were healed and with the leaders' follow pipelines idle for 45s, %s (fault sequence: %v)", missing, history)
				return
			}
			time.Sleep(100 * time.Millisecond)
		}
	}
	if !solo.WaitCaughtUp(quiesceTimeout) {
		c.Inconclusive("standalone did not catch up")
		return
	}
	c.Obs("scenarios", 1)
	c.Obs("fault_steps", int64(steps))
	for _, f := range followers {
		c.Obs("follower_startup_races_retried", int64(f.StartupRaces))
	}
	c.Obs("follower_crashes", int64(crashes))
	c.Obs("follower_crash_points_hit", int64(crashPointsHit))
	if crashMode {
		c.Obs("scenarios_with_process_followers", 1)
	}
	c.Obs("ids_acknowledged", int64(len(acked)))
	// exactly-once per follower table
	for p, reps := range cl.Followers {
		for _, t := range tables {
			var firstDump string
			for ri, f := range reps {
				res := f.Query(ctxBackground(), "SELECT * FROM "+t.name, true)
				if res.Failed() {
					c.Violate("c12-query-error", "follower dump failed: %s", res.ErrString())
					return
				}
				mult := map[int]int{}
				vi := res.Field("v")
				var lines []string
				for i := range res.Rows {
					row := &res.Rows[i]
					k, _ := row.Dims["k"].(string)
					lines = append(lines, fmt.Sprintf("%s|%v=%v", k, row.Dims["odd"], row.Vals[vi]))
					if strings.HasPrefix(k, "zzbar") {
						continue
					}
					var cn int
					fmt.Sscanf(k, "c%d", &cn)
					ones, twos, ok := c02Decode(row.Vals[vi])
					if !ok {
						c.ViolateData("c12-garbled-cell", history, "follower %d.%d table %s cell %s holds %v", f.Partition, f.ID, t.name, k, row.Vals[vi])
						return
					}
					for _, j := range ones {
						mult[cn*30+j]++
					}
					for _, j := range twos {
						mult[cn*30+j] += 2
					}
				}
				for id := 0; id < nextID; id++ {
					mine := cluster.PartitionFor(c12Dims(id), t.partBy, N) == p && (!t.where || id%2 == 1)
					m := mult[id]
					switch {
					case mine && acked[id] && m != 1:
						sig := "c12-point-lost"
						if m > 1 {
							sig = "c12-point-duplicated"
						}
						c.ViolateData(sig, history, "follower %d.%d table %s: acknowledged id %d of its partition is reflected %d times after the fault sequence %v", f.Partition, f.ID, t.name, id, m, history)
						return
					case !mine && m != 0:
						c.ViolateData("c12-foreign-point", history, "follower %d.%d table %s holds id %d, which belongs to another partition or fails the table's WHERE", f.Partition, f.ID, t.name, id)
						return
					case mine && !acked[id] && m > 1:
						c.ViolateData("c12-point-duplicated", history, "follower %d.%d table %s reflects unacknowledged id %d %d times", f.Partition, f.ID, t.name, id, m)
						return
					}
				}
				dump := strings.Join(sortedCopy(lines), "\n")
				if ri == 0 {
					firstDump = dump
				} else if dump != firstDump {
					c.ViolateData("c12-replicas-differ", history, "redundant followers of partition %d differ in table %s after the fault sequence %v", p, t.name, history)
					return
				}
				c.Obs("follower_tables_decoded", 1)
			}
		}
	}
	// leader vs standalone
	for _, t := range tables {
		for li := range cl.Leaders {
			q := "SELECT * FROM " + t.name
			local := solo.Query(q, true)
			dist := dbh.RunQuery(ctxBackground(), cl.Leaders[li].DB, q, true, nil)
			if diff := dbh.Diff(local, dist, 0); diff != "" {
				c.ViolateData("c12-cluster-vs-standalone", history, "%q through leader %d differs from the standalone database after the fault sequence %v: %s", q, cl.Leaders[li].ID, history, diff)
				return
			}
			c.Obs("leader_queries", 1)
		}
	}
	c.Nontrivial(faultDuringTraffic)
	c.Sample(map[string]interface{}{"process_followers": crashMode, "partitions": N, "leaders": nLeaders, "followers_per_partition": red, "fault_sequence": history, "ids": nextID})
}

// c12NodeBin names the harness binary follower processes are started from (same build as the worker).
func c12NodeBin(c *fw.Ctx) string {
	if c.IsRace {
		return "vcheck-race"
	}
	return "vcheck"
}

func sortedCopy(s []string) []string {
	out := append([]string(nil), s...)
	sortStrings(out)
	return out
}
