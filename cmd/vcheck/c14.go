package main

// C14 — retention drops only expired data, and expired data stays gone.
// Model-based monitor over histories of inserts (late, out-of-order, clock jumps) and flushes on a
// single-table DB with the virtual clock (the clock is then a function of the processed prefix).

import (
	"fmt"
	"strings"
	"time"

	"github.com/getlantern/zenodb"

	"verif/internal/dbh"
	"verif/internal/fw"
	"verif/internal/gen"
	"verif/internal/ref"
)

func init() {
	fw.Register(&fw.Property{
		ID:    "C14",
		Level: "exploration",
		Rule: "one case = one history on a single table (virtual clock): steps of inserts (near the clock, late by 0.5-1.5 retentions, out-of-order, clock jumps of 1 period to several retentions, dormant keys revived), forced flushes, timer flushes; " +
			"retention/resolution ratios incl. non-multiples; reference = sequential model of acceptance (a point is rejected iff older than clock - retention when processed) + aggregation of accepted points; " +
			"checks after every step group: (1) every period wholly inside (now-R, now] that got an accepted point is in the ungrouped native dump (memstore-inclusive; disk-only right after a flush) with the reference value, " +
			"and any period that is shown shows the accepted-only aggregate; (2) grouped / time-ranged queries never return a period that ended more than one resolution before now-R; " +
			"(3) an expired period is absent from the disk-only dump once 10 further data-carrying flushes (counted by hook) have completed, and never reappears; " +
			"non-trivial = >=1 point rejected as too old, >=1 key straddling the boundary and >=10 flushes; distinct by history hash",
		Assumptions: []string{"restarts are not part of C14 (a restarted virtual clock starts at zero)", "periods straddling now-R are don't-care for presence"},
		Cases: func(tier string) int {
			if tier == "quick" {
				return 20
			}
			return 400
		},
		Batch:            8,
		Workers:          8,
		RaceEvery:        5,
		PanicIsViolation: true,
		Run:              runC14,
	})
}

func runC14(c *fw.Ctx) {
	r := c.Rand
	t := gen.Table(r, "t", "inbound")
	t.GroupBy = []string{"s", "n"}
	if r.Intn(2) == 0 {
		t.Where = nil
	}
	res := t.Res
	ratio := 2 + r.Intn(8)
	retention := res * time.Duration(ratio)
	switch r.Intn(3) {
	case 1:
		retention += res / 2
	case 2:
		retention += time.Duration(1 + r.Int63n(int64(res)-1))
	}
	specs := []ref.TableSpec{t}
	def := dbh.TableDef{Name: "t", SQL: t.SQL(), Retention: retention, Stream: "inbound"}
	if r.Intn(3) == 0 {
		def.MaxFlush = time.Duration(2+r.Intn(10)) * time.Millisecond
	}
	// every fourth case runs under a memory cap so small that every insert forces a synchronous, *sorted*
	// flush of what the memstore held before it (capMemorySize -> forceFlush): all flushes of such a history
	// take the external-sort path. DB.FlushAll cannot be used there (it deadlocks with a memory cap, see
	// DESIGN observations), so the flush steps of these histories only run the checks.
	pressure := c.Case%4 == 3
	opts := dbh.Opts{VirtualTime: true}
	if pressure {
		opts.MaxMemoryRatio = 1e-12
		def.MaxFlush = 0
		c.Obs("histories_under_memory_pressure", 1)
	}
	db, err := dbh.Open(c.Dir, []dbh.TableDef{def}, opts)
	if err != nil {
		c.Violate("open", "cannot open: %v", err)
		return
	}
	defer db.Close()
	zenodb.VerifResetCounts()
	c.HashAdd(t.SQL(), retention)

	var accepted []ref.Point
	var now time.Time
	rejected := 0
	nextID := 0
	steps := c.Pick(60, 150)
	clockTarget := gen.Base.Add(retention)
	// model bookkeeping for clause (3)
	expiredAtFlush := map[string]int64{} // period end -> data flush count when first seen expired
	goneFromDisk := map[string]bool{}    // period end -> seen absent from disk after its 10 flushes
	straddlers := 0
	flushesSeen := func() int64 { return zenodb.VerifCounts()["flush.start"] }
	var history []string
	note := func(s string) {
		if len(history) < 40 {
			history = append(history, s)
		}
	}
	activeBase := 0
	insert := func(ts time.Time) bool {
		p := ref.Point{ID: nextID, TS: ts, Dims: gen.Dims(r), Vals: gen.Vals(r)}
		// few active keys at a time (so that series straddle the retention boundary) out of a larger
		// population, most of which lies dormant for long stretches
		p.Dims["s"] = gen.StrVals[(activeBase+r.Intn(2))%len(gen.StrVals)]
		p.Dims["n"] = (activeBase/2 + r.Intn(2)) % 4
		nextID++
		if err := insertPoint(db, "inbound", &p); err != nil {
			c.Violate("insert-error", "%v", err)
			return false
		}
		// sequential model: rejected iff older than (clock - retention) when processed; the clock
		// only moves for points that pass the WHERE
		if !now.IsZero() && ts.Before(now.Add(-retention)) {
			rejected++
			return true
		}
		pass := true
		if t.Where != nil {
			in, ok := t.Where.Eval(p.Dims)
			pass = ok && in
		}
		if pass && ts.After(now) {
			now = ts
		}
		accepted = append(accepted, p)
		return true
	}
	// (3) disk truncation, judged on a disk-only native dump
	diskClause := func(got map[string]*dbh.Row, cells map[string]*ref.Cell, lower time.Time, data map[string]interface{}, step int) bool {
		fl := flushesSeen()
		for id, cell := range cells {
			end := time.Unix(0, cell.TS)
			if end.After(lower) {
				continue
			}
			if _, seen := expiredAtFlush[id]; !seen {
				expiredAtFlush[id] = fl
			}
			_, present := got[id]
			if !present {
				if fl-expiredAtFlush[id] >= 10 {
					goneFromDisk[id] = true
				}
				continue
			}
			if goneFromDisk[id] {
				c.ViolateData("c14-expired-reappears", data, "step %d: expired period ending %v (key %s) was already gone from disk and has reappeared", step, end.UTC(), cell.Key)
				return false
			}
			if fl-expiredAtFlush[id] >= 11 {
				c.ViolateData("c14-expired-not-truncated", data, "step %d: period ending %v (key %s) expired %d data-carrying flushes ago (clock - retention = %v) and is still on disk", step, end.UTC(), cell.Key, fl-expiredAtFlush[id], lower.UTC())
				return false
			}
		}
		return true
	}
	check := func(afterFlush bool, step int) bool {
		if !db.WaitCaughtUp(quiesceTimeout) {
			c.Inconclusive("ingestion did not catch up")
			return false
		}
		if now.IsZero() {
			return true
		}
		cells, ood := specs[0].Aggregate(accepted)
		if ood > 0 {
			return true
		}
		lower := now.Add(-retention)
		data := map[string]interface{}{"table": t.SQL(), "retention": retention.String(), "clock": now.Format(time.RFC3339Nano), "step": step, "history": history}
		// (1) storage
		modes := []bool{true}
		if afterFlush && !pressure {
			modes = append(modes, false)
		}
		for _, mem := range modes {
			dump := db.Query("SELECT * FROM t", mem)
			if dump.Failed() {
				c.ViolateData("c14-query-error", data, "native dump failed: %s", dump.ErrString())
				return false
			}
			got, dup := dump.Index()
			if dup != "" {
				c.ViolateData("c14-duplicate-row", data, "native dump returned row %s twice", dup)
				return false
			}
			pi := dump.Field("_points")
			for id, cell := range cells {
				end := time.Unix(0, cell.TS)
				begin := end.Add(-res)
				row, present := got[id]
				inside := !begin.Before(lower) && !end.After(ref.CeilTime(now, res))
				if begin.Before(lower) && end.After(lower) {
					straddlers++
				}
				if inside && !present {
					c.ViolateData("c14-drops-unexpired", data, "step %d (includeMemStore=%v): period (%v, %v] of key %s lies wholly inside (now - retention, now] = (%v, %v] and received accepted points %v, but it is not stored any more", step, mem, begin.UTC(), end.UTC(), cell.Key, lower.UTC(), now.UTC(), cell.IDs)
					return false
				}
				if present && !inside {
					// an expired or straddling period may legitimately show only part of what was accepted
					// (its older part on disk is dropped by merges), but never more
					if row.Vals[pi] > float64(cell.Points) {
						c.ViolateData("c14-wrong-points", data, "step %d (includeMemStore=%v): period ending %v of key %s shows _points=%v but only %d points were accepted into it (ids %v; %d points were rejected as too old so far)", step, mem, end.UTC(), cell.Key, row.Vals[pi], cell.Points, cell.IDs, rejected)
						return false
					}
				}
				if present && inside {
					if row.Vals[pi] != float64(cell.Points) {
						c.ViolateData("c14-wrong-points", data, "step %d (includeMemStore=%v): period ending %v of key %s shows _points=%v but %d points were accepted into it (ids %v; %d points were rejected as too old so far)", step, mem, end.UTC(), cell.Key, row.Vals[pi], cell.Points, cell.IDs, rejected)
						return false
					}
					for fi := range t.Fields {
						want, _, dc := cell.Accs[fi].Value(&t.Fields[fi])
						if dc {
							continue
						}
						if g := row.Vals[dump.Field(t.Fields[fi].Name)]; !ref.FloatEq(g, want, 1e-9) {
							c.ViolateData("c14-wrong-value", data, "step %d (includeMemStore=%v): period ending %v of key %s field %s = %v, accepted points %v give %v", step, mem, end.UTC(), cell.Key, t.Fields[fi].Name, g, cell.IDs, want)
							return false
						}
					}
				}
			}
			for id, row := range got {
				if _, ok := cells[id]; !ok {
					c.ViolateData("c14-stores-rejected", data, "step %d (includeMemStore=%v): the store shows row %s %v although no accepted point falls into it (%d points were rejected as older than the retention when processed)", step, mem, id, row.Vals, rejected)
					return false
				}
			}
			c.Obs("storage_checks", 1)
			if !mem {
				if !diskClause(got, cells, lower, data, step) {
					return false
				}
				c.Obs("disk_checks", 1)
			}
		}
		if pressure && afterFlush {
			// the newest point is still in memory, so only clause (3) is judged on the disk-only dump
			dump := db.Query("SELECT * FROM t", false)
			if dump.Failed() {
				c.ViolateData("c14-query-error", data, "disk-only native dump failed: %s", dump.ErrString())
				return false
			}
			got, _ := dump.Index()
			if !diskClause(got, cells, lower, data, step) {
				return false
			}
			c.Obs("disk_checks_under_pressure", 1)
		}
		// (2) grouped and time-ranged queries
		limit := lower.Add(-res)
		qs := []string{
			"SELECT _points FROM t GROUP BY s, n",
			fmt.Sprintf("SELECT _points FROM t GROUP BY s, period(%v)", res*time.Duration(1+r.Intn(3))),
			"SELECT * FROM t GROUP BY _",
			fmt.Sprintf("SELECT _points FROM t ASOF '%s'", dbh.FmtTime(lower.Add(time.Duration(r.Int63n(int64(retention)))))),
			fmt.Sprintf("SELECT _points FROM t ASOF '%s' UNTIL '%s'", dbh.FmtTime(lower.Add(-time.Duration(r.Int63n(int64(2*retention))))), dbh.FmtTime(now)),
		}
		for _, q := range qs {
			resq := db.Query(q, true)
			c.Obs("window_queries", 1)
			if resq.Failed() {
				if strings.Contains(resq.ErrString(), "before table asOf") || strings.Contains(resq.ErrString(), "Query resolution '0s'") {
					continue
				}
				c.ViolateData("c14-query-error", data, "%q failed: %s", q, resq.ErrString())
				return false
			}
			for i := range resq.Rows {
				end := time.Unix(0, resq.Rows[i].TS)
				if end.Before(limit) {
					c.ViolateData("c14-query-returns-expired", data, "step %d: %q returns a period ending %v, more than one resolution before now - retention = %v", step, q, end.UTC(), lower.UTC())
					return false
				}
			}
		}
		return true
	}

	flushCount := 0
	for step := 0; step < steps && !c.Violated(); step++ {
		if r.Intn(12) == 0 {
			activeBase = r.Intn(8)
		}
		switch k := r.Intn(20); {
		case k < 9: // batch near the clock
			n := 1 + r.Intn(8)
			for i := 0; i < n; i++ {
				ts := clockTarget.Add(-time.Duration(r.Int63n(int64(retention))))
				if r.Intn(4) == 0 {
					ts = ref.CeilTime(ts, res)
				}
				if !insert(ts) {
					return
				}
			}
			note(fmt.Sprintf("step %d: %d points within one retention of %v", step, n, clockTarget.UTC().Format("15:04:05")))
		case k < 11: // late points around / beyond the boundary
			n := 1 + r.Intn(4)
			for i := 0; i < n; i++ {
				back := retention/2 + time.Duration(r.Int63n(int64(retention)))
				if !insert(clockTarget.Add(-back)) {
					return
				}
			}
			note(fmt.Sprintf("step %d: %d late points 0.5-1.5 retentions behind", step, n))
		case k < 14: // clock advance
			var jump time.Duration
			switch r.Intn(3) {
			case 0:
				jump = res * time.Duration(1+r.Intn(3))
			case 1:
				jump = retention/2 + time.Duration(r.Int63n(int64(retention)))
			default:
				jump = retention * time.Duration(1+r.Intn(3))
			}
			clockTarget = clockTarget.Add(jump)
			if !insert(clockTarget) {
				return
			}
			note(fmt.Sprintf("step %d: clock jump by %v to %v", step, jump, clockTarget.UTC().Format("15:04:05")))
		default:
			// flush only after ingestion has caught up, so that what it carries is known
			if !db.WaitCaughtUp(quiesceTimeout) {
				c.Inconclusive("ingestion did not catch up")
				return
			}
			if pressure {
				note(fmt.Sprintf("step %d: checks (every insert has forced a sorted flush)", step))
				if !check(true, step) {
					return
				}
				continue
			}
			db.FlushAll()
			flushCount++
			note(fmt.Sprintf("step %d: FlushAll", step))
			if r.Intn(3) == 0 {
				// a flush request that finds an empty memstore
				db.FlushAll()
				note(fmt.Sprintf("step %d: FlushAll again (empty memstore)", step))
				c.Obs("empty_flush_requests", 1)
			}
			if !check(true, step) {
				return
			}
			continue
		}
		if r.Intn(3) == 0 {
			if !check(false, step) {
				return
			}
		}
	}
	if !c.Violated() {
		db.WaitCaughtUp(quiesceTimeout)
		if !pressure {
			db.FlushAll()
		}
		check(true, steps)
	}
	c.Obs("points_rejected_as_too_old", int64(rejected))
	c.Obs("points_accepted", int64(len(accepted)))
	c.Obs("flushes_by_hook", flushesSeen())
	c.Obs("expired_periods_seen_gone_from_disk", int64(len(goneFromDisk)))
	c.Nontrivial(rejected > 0 && straddlers > 0 && flushesSeen() >= 10)
	c.Sample(map[string]interface{}{"table": t.SQL(), "retention": retention.String(), "steps": steps, "rejected": rejected, "accepted": len(accepted), "history_head": history})
}
