//go:build race

package main

const isRaceBuild = true
