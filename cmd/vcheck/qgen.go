package main

// Generic generator of valid zenodb SELECT statements over a generated table, used by the
// differential / metamorphic monitors (C03, C04, C09, C17, C10, C11, C20).

import (
	"fmt"
	"math/rand"
	"sort"
	"strings"
	"time"

	"verif/internal/dbh"
	"verif/internal/gen"
	"verif/internal/ref"
)

type qOpts struct {
	noLimit       bool // never emit LIMIT/OFFSET
	noOrder       bool
	noRange       bool
	noSubquery    bool
	noCrosstab    bool
	noHaving      bool
	noShift       bool
	deterministic bool // only constructs whose row multiset is fully determined (LIMIT only with a total ORDER BY is still excluded)
	pastUntilBias bool // prefer UNTIL values before the newest stored period
	fullRange     bool // always give explicit absolute ASOF and UNTIL (result independent of the database clock)
}

type genQ struct {
	SQL      string
	HasRange bool
	HasLimit bool
	HasOrder bool
	Grouped  bool
}

// genQuery builds one query over table t of dataset d.
func genQuery(r *rand.Rand, d *dataset, o qOpts) genQ {
	t := d.spec
	var q genQ
	// select list
	var sel []string
	names := []string{"_points"}
	for i := range t.Fields {
		names = append(names, t.Fields[i].Name)
	}
	switch r.Intn(6) {
	case 0:
		sel = []string{"*"}
	case 1:
		sel = []string{"*", fmt.Sprintf("%s + %s AS extra", names[r.Intn(len(names))], names[r.Intn(len(names))])}
	default:
		perm := r.Perm(len(names))
		k := 1 + r.Intn(len(names))
		for _, i := range perm[:k] {
			sel = append(sel, names[i])
		}
		nd := r.Intn(3)
		for j := 0; j < nd; j++ {
			a, b := names[r.Intn(len(names))], names[r.Intn(len(names))]
			op := []string{"+", "-", "*", "/"}[r.Intn(4)]
			sel = append(sel, fmt.Sprintf("%s %s %s AS d%d", a, op, b, j))
		}
		if !o.noShift && r.Intn(6) == 0 {
			sel = append(sel, fmt.Sprintf("SHIFT(%s, '-%v') AS sh", names[r.Intn(len(names))], t.Res*time.Duration(1+r.Intn(3))))
		}
		if !o.noShift && r.Intn(10) == 0 {
			sel = append(sel, fmt.Sprintf("CROSSHIFT(%s, '-%v', '%v')", names[r.Intn(len(names))], t.Res*time.Duration(2+r.Intn(3)), t.Res))
		}
	}
	sql := "SELECT " + strings.Join(sel, ", ") + " FROM t"
	// time range
	if o.fullRange || (!o.noRange && r.Intn(3) == 0) {
		q.HasRange = true
		first, last := d.dataBounds()
		span := last.Sub(first) + 4*t.Res
		pick := func() time.Time {
			tt := first.Add(-2 * t.Res).Add(time.Duration(r.Int63n(int64(span) + 1)))
			if r.Intn(2) == 0 {
				tt = ref.CeilTime(tt, t.Res)
			}
			return tt
		}
		asOf := pick()
		if asOf.Before(d.asOf) {
			asOf = d.asOf.Add(time.Duration(r.Int63n(int64(2 * t.Res))))
		}
		sql += fmt.Sprintf(" ASOF '%s'", dbh.FmtTime(asOf))
		if o.fullRange || r.Intn(4) != 0 {
			until := asOf.Add(t.Res + time.Duration(r.Int63n(int64(span))))
			if o.pastUntilBias && until.After(last.Add(-t.Res)) && last.Sub(asOf) > 2*t.Res {
				until = asOf.Add(t.Res + time.Duration(r.Int63n(int64(last.Sub(asOf)-t.Res))))
			}
			sql += fmt.Sprintf(" UNTIL '%s'", dbh.FmtTime(until))
		}
	}
	// where
	if r.Intn(3) == 0 {
		if !o.noSubquery && r.Intn(4) == 0 {
			dim := []string{"s", "n"}[r.Intn(2)]
			sub := fmt.Sprintf("SELECT %s FROM t", dim)
			if r.Intn(2) == 0 {
				sub += " WHERE " + gen.Pred(r, 1).SQL()
			}
			sub += " GROUP BY " + dim
			if r.Intn(3) == 0 {
				sub += " HAVING _points > " + fmt.Sprint(r.Intn(4))
			}
			sql += fmt.Sprintf(" WHERE %s IN (%s)", dim, sub)
		} else {
			sql += " WHERE " + gen.Pred(r, 2).SQL()
		}
	}
	// group by
	var gb []string
	avail := t.GroupBy
	if len(avail) == 0 {
		avail = gen.GroupDims
	}
	var outDims []string
	switch r.Intn(5) {
	case 0:
		outDims = avail // no dim clause: keys unchanged
	case 1:
		gb = append(gb, "_")
	default:
		perm := r.Perm(len(avail))
		k := 1 + r.Intn(len(avail))
		for _, i := range perm[:k] {
			outDims = append(outDims, avail[i])
		}
		sort.Strings(outDims)
		gb = append(gb, outDims...)
	}
	if !o.noCrosstab && r.Intn(8) == 0 {
		gb = append(gb, fmt.Sprintf("CROSSTAB(%s)", []string{"s", "b"}[r.Intn(2)]))
	}
	if r.Intn(3) == 0 {
		gb = append(gb, fmt.Sprintf("period(%v)", t.Res*time.Duration(1+r.Intn(5))))
	}
	if r.Intn(12) == 0 {
		gb = append(gb, fmt.Sprintf("stride(%v)", t.Res*time.Duration(2+r.Intn(3))))
	}
	if len(gb) > 0 {
		sql += " GROUP BY " + strings.Join(gb, ", ")
		q.Grouped = true
	}
	if !o.noHaving && r.Intn(5) == 0 {
		sql += fmt.Sprintf(" HAVING %s %s %d", names[r.Intn(len(names))], []string{">", "<", ">=", "<>"}[r.Intn(4)], r.Intn(20))
	}
	if !o.noOrder && r.Intn(3) == 0 {
		q.HasOrder = true
		var keys []string
		cands := []string{"_time"}
		for _, od := range outDims {
			if od != "m" { // ordering by a dim of mixed dynamic type is C09 territory
				cands = append(cands, od)
			}
		}
		cands = append(cands, names...)
		k := 1 + r.Intn(3)
		for j := 0; j < k; j++ {
			key := cands[r.Intn(len(cands))]
			if r.Intn(2) == 0 {
				key += " DESC"
			}
			keys = append(keys, key)
		}
		sql += " ORDER BY " + strings.Join(keys, ", ")
	}
	if !o.noLimit && r.Intn(4) == 0 {
		q.HasLimit = true
		sql += fmt.Sprintf(" LIMIT %d", 1+r.Intn(30))
		if r.Intn(3) == 0 {
			sql += fmt.Sprintf(" OFFSET %d", r.Intn(10))
		}
	}
	q.SQL = sql
	return q
}

// dataBounds returns the oldest and newest stored period ends.
func (d *dataset) dataBounds() (first, last time.Time) {
	first = d.until
	for _, cell := range d.cells {
		ts := time.Unix(0, cell.TS)
		if ts.Before(first) {
			first = ts
		}
		if ts.After(last) {
			last = ts
		}
	}
	if last.IsZero() {
		last = d.until
	}
	return
}
