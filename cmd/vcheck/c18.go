package main

// C18 — a query observes the table as of a single instant.
// Deterministic pause monitor (inserts / flushes placed inside the consumer callback of a running
// scan) and a stress monitor (prefix-closed id sets under concurrent inserts, flushes and scans),
// both decoded through the unique-id value encoding (value 3^j, <= 30 ids per cell).

import (
	"context"
	"fmt"
	"math"
	"math/rand"
	"sort"
	"sync"
	"sync/atomic"
	"time"

	"github.com/getlantern/zenodb"

	"verif/internal/dbh"
	"verif/internal/fw"
	"verif/internal/gen"
)

func init() {
	fw.Register(&fw.Property{
		ID:    "C18",
		Level: "exploration",
		Rule: "even cases: deterministic pauses — phase-A ids inserted and quiesced (memory / flushed / mixed), a memstore-inclusive ungrouped scan is started, inside its consumer callback at row k phase-B ids are inserted " +
			"(into cells already delivered, not yet delivered, new periods of existing keys, new keys), ingestion is quiesced, optionally 1-2 FlushAll, then the scan continues (every third pause also processes a point far in the future, which moves the clock past the retention of everything still undelivered); every delivered row must decode (base 3) to exactly the phase-A ids of its cell in all fields (SUM, COUNT, MAX, AVG, _points), no row may consist of B ids, no A cell may be missing. " +
			"odd cases: stress — one inserter (WAL order = id order), a flusher and 4-8 scanning goroutines, each scan's decoded id set must be prefix-closed ({ids <= m}), m monotone per scanner and not below what the row store had applied when the scan started (progress hook), and every row consistent across its fields; race detector attributes ingest-vs-scan reports. " +
			"non-trivial = B ids were processed while the scan was paused with rows still undelivered / >=3 distinct prefix lengths observed; distinct by (k, placement, flush) combination",
		Assumptions: []string{"the consumer callback holds no zenodb lock, so waiting for quiescence inside it is legitimate", "ids of one cell are 3^j, j<30: sums are exact in float64"},
		Cases: func(tier string) int {
			if tier == "quick" {
				return 12
			}
			return 600
		},
		Batch:            4,
		Workers:          6,
		RaceEvery:        1,
		RaceSig:          storageRaceSig,
		PanicIsViolation: true,
		Run:              runC18,
	})
}

const c18SQL = "SELECT SUM(v) AS sv, COUNT(v) AS cv, MAX(v) AS mv, AVG(v) AS av FROM inbound GROUP BY k, period(1m)"

type c18Cell struct {
	key    string
	period int
}

func (c c18Cell) ts() time.Time { return gen.Base.Add(time.Duration(c.period+1) * time.Minute) }

func c18Decode(sum float64) (digits []int, ok bool) {
	if sum < 0 || sum != math.Trunc(sum) {
		return nil, false
	}
	n := int64(sum)
	for j := 0; n > 0; j++ {
		d := int(n % 3)
		n /= 3
		if d == 2 {
			return nil, false
		}
		if d == 1 {
			digits = append(digits, j)
		}
	}
	return digits, true
}

func runC18(c *fw.Ctx) {
	if c.Case%2 == 0 {
		c18Pauses(c)
	} else {
		c18Stress(c)
	}
}

func c18Insert(db *dbh.DB, cell c18Cell, j int) error {
	// inside the cell's period, not on the boundary
	ts := cell.ts().Add(-time.Duration(1+j) * time.Second)
	return db.Insert("inbound", ts, map[string]interface{}{"k": cell.key}, map[string]interface{}{"v": math.Pow(3, float64(j))})
}

func c18Pauses(c *fw.Ctx) {
	r := c.Rand
	nPauses := c.Pick(5, 10)
	combos := map[string]bool{}
	effective := 0
	var samples []interface{}
	for pi := 0; pi < nPauses && !c.Violated(); pi++ {
		dir := fmt.Sprintf("%s/p%d", c.Dir, pi)
		maxFlush := time.Duration(0)
		if r.Intn(3) == 0 {
			maxFlush = time.Duration(1+r.Intn(5)) * time.Millisecond
		}
		// every third pause: a short retention, and one of the points processed during the pause lies so far in
		// the future that it moves the database clock past the retention of everything the scan has yet to deliver
		clockJump := r.Intn(3) == 0
		retention := 24 * time.Hour
		if clockJump {
			retention = 10 * time.Minute
		}
		db, err := dbh.Open(dir, []dbh.TableDef{{Name: "t", SQL: c18SQL, Retention: retention, Stream: "inbound", MaxFlush: maxFlush}}, dbh.Opts{VirtualTime: true})
		if err != nil {
			c.Violate("open", "%v", err)
			return
		}
		nKeys := 6 + r.Intn(20)
		nPeriods := 1 + r.Intn(4)
		if clockJump {
			nPeriods = 3 + r.Intn(3)
		}
		A := map[c18Cell]map[int]bool{}
		B := map[c18Cell]map[int]bool{}
		split := []string{"mem", "disk", "mixed"}[r.Intn(3)]
		var aList []c18Cell
		for k := 0; k < nKeys; k++ {
			for p := 0; p < nPeriods; p++ {
				if r.Intn(4) == 0 {
					continue
				}
				cell := c18Cell{fmt.Sprintf("k%02d", k), p}
				A[cell] = map[int]bool{}
				for n := 0; n < 1+r.Intn(4); n++ {
					A[cell][r.Intn(30)] = true
				}
				aList = append(aList, cell)
			}
		}
		// the newest period must exist in A so that the virtual clock does not move during phase B
		last := c18Cell{"k00", nPeriods + 1}
		A[last] = map[int]bool{0: true}
		aList = append(aList, last)
		if clockJump {
			// every key gets its early periods flushed and its later periods left in memory, so that every
			// row the scan delivers is merged from the file and the memstore copy
			split = "mixed"
			A = map[c18Cell]map[int]bool{last: {0: true}}
			aList = aList[:0]
			for p := 0; p < nPeriods; p++ {
				for k := 0; k < nKeys; k++ {
					cell := c18Cell{fmt.Sprintf("k%02d", k), p}
					A[cell] = map[int]bool{r.Intn(30): true}
					aList = append(aList, cell)
				}
			}
			aList = append(aList, last)
		}
		total := 0
		for _, cell := range aList {
			total += len(A[cell])
		}
		done := 0
		for _, cell := range aList {
			for j := range A[cell] {
				c18Insert(db, cell, j)
				done++
				if split == "mixed" && done == total/2 {
					db.WaitCaughtUp(quiesceTimeout)
					db.FlushAll()
				}
			}
		}
		if !db.WaitCaughtUp(quiesceTimeout) {
			c.Inconclusive("phase A did not catch up")
			db.Close()
			return
		}
		if split == "disk" {
			db.FlushAll()
		}
		// phase B placement
		for n := 0; n < 3+r.Intn(12); n++ {
			var cell c18Cell
			switch r.Intn(4) {
			case 0, 1: // an existing A cell
				cell = aList[r.Intn(len(aList))]
			case 2: // existing key, other period
				cell = c18Cell{fmt.Sprintf("k%02d", r.Intn(nKeys)), r.Intn(nPeriods + 1)}
			default: // new key
				cell = c18Cell{fmt.Sprintf("n%02d", r.Intn(10)), r.Intn(nPeriods + 1)}
			}
			j := r.Intn(30)
			if A[cell][j] {
				continue
			}
			if B[cell] == nil {
				B[cell] = map[int]bool{}
			}
			B[cell][j] = true
		}
		if clockJump {
			B[c18Cell{"zfuture", nPeriods + 2 + 10 + 2 + r.Intn(20)}] = map[int]bool{0: true}
			c.Obs("pauses_with_clock_jump", 1)
		}
		pauseAt := r.Intn(len(aList))
		flushes := r.Intn(3)
		combo := fmt.Sprintf("split=%s pauseAtRow=%d/%d flushesDuringPause=%d timerFlush=%v clockJump=%v", split, pauseAt, len(aList), flushes, maxFlush > 0, clockJump)
		combos[combo] = true
		c.HashAdd(combo)
		paused := false
		delivered := map[c18Cell]bool{}
		// a third of the pauses happen even earlier: right after the scan took its memstore copy and
		// before it picked / opened the file (hook point outside any lock)
		atHook := r.Intn(3) == 0
		if clockJump {
			// the retention cut-off of a scan is read from the clock when the file scan starts, i.e. after these
			// hook points: which periods have expired "as of the query" is then legitimately decided by the later
			// clock (the statement speaks about points reflected in rows, not about the expiry instant), so the
			// clock-jump pauses only use the consumer callback, where the cut-off has already been fixed
			atHook = false
		}
		if atHook {
			pt := []string{"iterate.afterCopy", "iterate.beforeScan"}[r.Intn(2)]
			combo += " at=" + pt
			combos[combo] = true
			var armed int32 = 1
			zenodb.VerifSetHandler(func(name string, n int64) {
				if name == pt && atomic.CompareAndSwapInt32(&armed, 1, 0) {
					paused = true
					for cell, js := range B {
						for j := range js {
							c18Insert(db, cell, j)
						}
					}
					db.WaitCaughtUp(quiesceTimeout)
					for f := 0; f < 1+flushes; f++ {
						db.FlushAll()
					}
				}
			})
			pauseAt = 0
		}
		res := dbh.RunQuery(context.Background(), db.DB, "SELECT * FROM t", true, func(i int, row *dbh.Row) (bool, error) {
			if i == pauseAt && !paused && !atHook {
				paused = true
				for cell, js := range B {
					for j := range js {
						c18Insert(db, cell, j)
					}
				}
				if !db.WaitCaughtUp(quiesceTimeout) {
					return false, fmt.Errorf("verif: phase B did not catch up")
				}
				for f := 0; f < flushes; f++ {
					db.FlushAll()
				}
			}
			return true, nil
		})
		zenodb.VerifSetHandler(nil)
		if res.Failed() {
			if paused {
				c.Inconclusive("scan failed: %s", res.ErrString())
			} else {
				c.Violate("c18-query-error", "scan failed: %s", res.ErrString())
			}
			db.Close()
			return
		}
		if paused {
			effective++
		}
		c.Obs("pauses", 1)
		data := map[string]interface{}{"combination": combo, "phaseA_cells": len(aList), "phaseB_ids": len(B)}
		svI, cvI, mvI, avI, pI := res.Field("sv"), res.Field("cv"), res.Field("mv"), res.Field("av"), res.Field("_points")
		for i := range res.Rows {
			row := &res.Rows[i]
			key, _ := row.Dims["k"].(string)
			period := int(time.Unix(0, row.TS).Sub(gen.Base)/time.Minute) - 1
			cell := c18Cell{key, period}
			want := A[cell]
			delivered[cell] = true
			digits, ok := c18Decode(row.Vals[svI])
			where := "delivered before the pause"
			if i >= pauseAt {
				where = "delivered after the pause"
			}
			if len(want) == 0 {
				c.ViolateData("c18-row-of-later-points", data, "%s: row %d (%s) key=%s period=%d consists only of points processed after the query started (sum=%v)", combo, i, where, key, period, row.Vals[svI])
				break
			}
			var wantDigits []int
			for j := range want {
				wantDigits = append(wantDigits, j)
			}
			sort.Ints(wantDigits)
			if !ok || fmt.Sprint(digits) != fmt.Sprint(wantDigits) {
				var bDigits []int
				for j := range B[cell] {
					bDigits = append(bDigits, j)
				}
				sort.Ints(bDigits)
				c.ViolateData("c18-row-mixes-instants", data, "%s: row %d (%s) key=%s period=%d decodes to ids %v (sum %v), but exactly the ids %v were processed before the query started (ids %v were processed during the pause)", combo, i, where, key, period, digits, row.Vals[svI], wantDigits, bDigits)
				break
			}
			// all fields of the row must reflect the same instant
			wantMax := math.Pow(3, float64(wantDigits[len(wantDigits)-1]))
			n := float64(len(wantDigits))
			if row.Vals[cvI] != n || row.Vals[pI] != n || row.Vals[mvI] != wantMax || math.Abs(row.Vals[avI]-row.Vals[svI]/n) > 1e-6*row.Vals[svI] {
				c.ViolateData("c18-fields-disagree", data, "%s: row %d (%s) key=%s period=%d: SUM decodes to the %d pre-query ids but COUNT=%v _points=%v MAX=%v (expected %v) AVG=%v", combo, i, where, key, period, len(wantDigits), row.Vals[cvI], row.Vals[pI], row.Vals[mvI], wantMax, row.Vals[avI])
				break
			}
			c.Obs("rows_decoded", 1)
		}
		if !c.Violated() {
			for _, cell := range aList {
				if !delivered[cell] {
					c.ViolateData("c18-missing-row", data, "%s: cell key=%s period=%d was fully processed before the query started but is missing from its result", combo, cell.key, cell.period)
					break
				}
			}
		}
		if len(samples) < 3 {
			samples = append(samples, data)
		}
		db.Close()
	}
	c.Obs("distinct_pause_combinations", int64(len(combos)))
	c.Nontrivial(effective > 0)
	c.Sample(map[string]interface{}{"kind": "deterministic pauses", "pauses": samples})
}

func c18Stress(c *fw.Ctx) {
	r := c.Rand
	db, err := dbh.Open(c.Dir, []dbh.TableDef{{Name: "t", SQL: c18SQL, Retention: 24 * time.Hour, Stream: "inbound", MaxFlush: time.Duration(2+r.Intn(10)) * time.Millisecond}},
		dbh.Opts{VirtualTime: true, IterConc: 4, Extra: nil})
	if err != nil {
		c.Violate("open", "%v", err)
		return
	}
	defer db.Close()
	nIDs := c.Pick(600, 2400)
	// id i -> cell (key i/30 % K, period (i/30)/K), exponent i%30 ; inserted strictly in id order
	const K = 7
	cellOf := func(i int) (c18Cell, int) {
		g := i / 30
		return c18Cell{fmt.Sprintf("k%02d", g%K), g / K}, i % 30
	}
	// pin the virtual clock: one point far in the newest period first
	maxPeriod := (nIDs/30)/K + 2
	db.Insert("inbound", c18Cell{"clock", maxPeriod}.ts().Add(-time.Second), map[string]interface{}{"k": "clock"}, map[string]interface{}{"v": 1.0})
	var inserted int64
	stop := make(chan struct{})
	var wg sync.WaitGroup
	// the goroutines below must not share the case's PRNG
	flushRand := rand.New(rand.NewSource(r.Int63()))
	nScanners := 4 + r.Intn(5)
	wg.Add(1)
	go func() {
		defer wg.Done()
		for i := 0; i < nIDs; i++ {
			cell, j := cellOf(i)
			c18Insert(db, cell, j)
			atomic.StoreInt64(&inserted, int64(i+1))
			if i%50 == 0 {
				time.Sleep(time.Millisecond)
			}
		}
	}()
	wg.Add(1)
	go func() {
		defer wg.Done()
		for {
			select {
			case <-stop:
				return
			case <-time.After(time.Duration(3+flushRand.Intn(5)) * time.Millisecond):
				db.FlushAll()
			}
		}
	}()
	type finding struct {
		sig, detail string
	}
	findings := make(chan finding, 100)
	prefixes := make([]map[int]bool, nScanners)
	var scans int64
	var swg sync.WaitGroup
	for s := 0; s < nScanners; s++ {
		prefixes[s] = map[int]bool{}
		swg.Add(1)
		go func(s int) {
			defer swg.Done()
			lastM := -1
			for {
				select {
				case <-stop:
					return
				default:
				}
				// everything the row store had applied before the scan started must be in the scan: the first insert it
				// applied is the clock point, then the ids in order
				_, _, appliedBefore := db.DB.VerifTableProgress("t")
				startedAfter := int(appliedBefore) - 2 // highest id certainly processed before the scan started
				res := db.Query("SELECT * FROM t", true)
				atomic.AddInt64(&scans, 1)
				if res.Failed() {
					findings <- finding{"c18-query-error", res.ErrString()}
					return
				}
				present := map[int]bool{}
				svI := res.Field("sv")
				cvI, mvI, avI, pI := res.Field("cv"), res.Field("mv"), res.Field("av"), res.Field("_points")
				bad := false
				for i := range res.Rows {
					row := &res.Rows[i]
					key, _ := row.Dims["k"].(string)
					if key == "clock" {
						continue
					}
					var kn int
					fmt.Sscanf(key, "k%d", &kn)
					period := int(time.Unix(0, row.TS).Sub(gen.Base)/time.Minute) - 1
					digits, ok := c18Decode(row.Vals[svI])
					if !ok {
						findings <- finding{"c18-stress-duplicate", fmt.Sprintf("scanner %d: row key=%s period=%d has sum %v, which is not a sum of distinct ids (a point is counted twice)", s, key, period, row.Vals[svI])}
						bad = true
						break
					}
					for _, j := range digits {
						present[(period*K+kn)*30+j] = true
					}
					// a point is reflected in all fields of its row or in none
					if n := float64(len(digits)); n > 0 {
						wantMax := math.Pow(3, float64(digits[len(digits)-1]))
						if row.Vals[cvI] != n || row.Vals[pI] != n || row.Vals[mvI] != wantMax || math.Abs(row.Vals[avI]-row.Vals[svI]/n) > 1e-6*row.Vals[svI] {
							findings <- finding{"c18-stress-fields-disagree", fmt.Sprintf("scanner %d: row key=%s period=%d: SUM decodes to %d ids but COUNT=%v _points=%v MAX=%v (expected %v) AVG=%v: a point is reflected in some fields of the row and not in others", s, key, period, len(digits), row.Vals[cvI], row.Vals[pI], row.Vals[mvI], wantMax, row.Vals[avI])}
							bad = true
							break
						}
					}
				}
				if bad {
					return
				}
				m := -1
				for id := range present {
					if id > m {
						m = id
					}
				}
				for id := 0; id <= m; id++ {
					if !present[id] {
						findings <- finding{"c18-stress-not-a-prefix", fmt.Sprintf("scanner %d: one scan reflects id %d but not the earlier id %d (ids are inserted and acknowledged strictly in order), %d ids present", s, m, id, len(present))}
						return
					}
				}
				if m < lastM {
					findings <- finding{"c18-stress-goes-back", fmt.Sprintf("scanner %d: a later scan reflects ids up to %d, an earlier one had already seen %d", s, m, lastM)}
					return
				}
				if m < startedAfter {
					findings <- finding{"c18-stress-misses-processed-point", fmt.Sprintf("scanner %d: the row store had applied ids up to %d before the scan started, but the scan only reflects ids up to %d", s, startedAfter, m)}
					return
				}
				lastM = m
				prefixes[s][m] = true
				if m >= nIDs-1 {
					return
				}
			}
		}(s)
	}
	wg.Add(1)
	go func() {
		defer wg.Done()
		swg.Wait()
	}()
	// watchdog for the whole stress run
	doneCh := make(chan struct{})
	go func() {
		swg.Wait()
		close(doneCh)
	}()
	select {
	case <-doneCh:
	case <-time.After(180 * time.Second):
		c.Inconclusive("stress run did not finish within the watchdog")
	}
	close(stop)
	wg.Wait()
	close(findings)
	for f := range findings {
		c.Violate(f.sig, "%s", f.detail)
	}
	distinct := map[int]bool{}
	for _, p := range prefixes {
		for m := range p {
			distinct[m] = true
		}
	}
	c.Obs("stress_scans", atomic.LoadInt64(&scans))
	c.Obs("stress_distinct_prefix_lengths", int64(len(distinct)))
	c.Obs("stress_ids", int64(nIDs))
	c.HashAdd("stress", nIDs, nScanners, len(distinct))
	c.Nontrivial(len(distinct) >= 3)
	c.Sample(map[string]interface{}{"kind": "stress", "ids": nIDs, "scanners": nScanners, "scans": scans, "distinct_prefix_lengths": len(distinct)})
}
