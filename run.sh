#!/bin/bash
# Single entry point: ./run.sh <ID|build> <quick|thorough> [--replay <file>] [extra args]
# Rebuilds the harness against /repo's current working tree (tag verif) and runs one check.
set -u
cd "$(dirname "$0")"
export GOFLAGS=-mod=mod GOPROXY=off GOSUMDB=off GOTOOLCHAIN=local
export VERIF_ROOT="$PWD"
REPO=${VERIF_REPO:-/repo}
if [ "$REPO" = "/repo" ]; then BIN=bin; else BIN=bin/alt-$(echo "$REPO" | md5sum | cut -c1-8); fi
export VERIF_BIN="$VERIF_ROOT/$BIN"

build() {
  mkdir -p bin $BIN
  (
    flock 9
    if [ "$REPO" != "/repo" ]; then
      sed "s#=> /repo#=> $REPO#" go.mod > $BIN/go.alt.mod; cp "$REPO/go.sum" $BIN/go.alt.sum
      MODFLAG="-modfile=$BIN/go.alt.mod"
    else
      cp "$REPO/go.sum" go.sum
      MODFLAG=""
    fi
    go build $MODFLAG -tags verif -o $BIN/vcheck ./cmd/vcheck || exit 3
    if [ "${1:-}" = "race" ] || [ "${1:-}" = "all" ]; then
      go build $MODFLAG -race -tags verif -o $BIN/vcheck-race ./cmd/vcheck || exit 3
    fi
    if [ "${1:-}" = "zeno" ] || [ "${1:-}" = "all" ]; then
      (cd "$REPO" && go build -tags verif -o "$VERIF_ROOT/$BIN/zeno" ./cmd/zeno) || exit 3
    fi
  ) 9>bin/.build.lock
}

if [ "${1:-}" = "build" ]; then
  build all; exit $?
fi
ID=${1:?usage: run.sh <ID> <quick|thorough>}; TIER=${2:-quick}; shift; shift || true
NEED=$(grep -E "^$ID " needs.txt 2>/dev/null | cut -d' ' -f2)
build "${NEED:-plain}" || { echo "BUILD FAILED property=$ID"; exit 3; }
exec $BIN/vcheck run "$ID" "$TIER" "$@"
