#!/bin/bash
# Single entry point: ./run.sh <ID|build> <quick|thorough> [--replay <file>] [extra args]
# Rebuilds the harness against /repo's current working tree (tag verif) and runs one check.
set -u
cd "$(dirname "$0")"
export GOFLAGS=-mod=mod GOPROXY=off GOSUMDB=off GOTOOLCHAIN=local
export VERIF_ROOT="$PWD"
REPO=${VERIF_REPO:-/repo}

build() {
  mkdir -p bin
  (
    flock 9
    cp "$REPO/go.sum" go.sum
    if [ "$REPO" != "/repo" ]; then
      sed "s#=> /repo#=> $REPO#" go.mod > bin/go.alt.mod; cp go.sum bin/go.alt.sum
      MODFLAG="-modfile=bin/go.alt.mod"
    else
      MODFLAG=""
    fi
    go build $MODFLAG -tags verif -o bin/vcheck ./cmd/vcheck || exit 3
    if [ "${1:-}" = "race" ] || [ "${1:-}" = "all" ]; then
      go build $MODFLAG -race -tags verif -o bin/vcheck-race ./cmd/vcheck || exit 3
    fi
    if [ "${1:-}" = "zeno" ] || [ "${1:-}" = "all" ]; then
      (cd "$REPO" && go build -tags verif -o "$VERIF_ROOT/bin/zeno" ./cmd/zeno) || exit 3
    fi
  ) 9>bin/.build.lock
}

if [ "${1:-}" = "build" ]; then
  build all; exit $?
fi
ID=${1:?usage: run.sh <ID> <quick|thorough>}; TIER=${2:-quick}; shift; shift || true
NEED=$(grep -E "^$ID " needs.txt 2>/dev/null | cut -d' ' -f2)
build "${NEED:-plain}" || { echo "BUILD FAILED property=$ID"; exit 3; }
exec bin/vcheck run "$ID" "$TIER" "$@"
