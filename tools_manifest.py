#!/usr/bin/env python3
# Regenerates MANIFEST.json from the table below (kept in one place so it stays valid at all times).
import json, subprocess
CHECKS = {
 "C01": ("exploration", "Reference aggregator over the raw points vs. native dump of every table/view after exact quiescence, over generated schemas, points and flush schedules.", "Trusts the monitor's reference aggregator (independent of zenodb's parser/expr code); nothing expires during a case; empty-set aggregates and x/0 are don't-care.", "runtime reference-model monitor over generated workloads (+ race build share)", "§3 C01"),
 "C03": ("exploration", "Metamorphic monitor: same points under a never-flush baseline and 4-7 flush/restart schedules (incl. sorted flushes, >=12 flushes, flush placed inside a running query via hook) must give identical rows for generated queries; disk-only == mem-inclusive after a flush.", "No oracle needed; restart schedules run on the real clock with clock-independent queries; race detector attributes ingest-vs-scan reports.", "metamorphic differential over executions + fault/delay hooks + race detector", "§3 C03"),
 "C04": ("exploration", "probe; Q; probe with bit-for-bit comparison over generated (Q, probe) pairs on memory/disk/mixed datasets, and again after the next flush.", "Disk-only probes only on fully flushed datasets (a timer flush may legitimately move rows to disk).", "runtime differential monitor (before/after probes), race build share", "§3 C04"),
 "C05": ("exploration", "Reference-model monitor around every Merge/SubMerge/Truncate call: exhaustive over a 6-period window for Sequence.Merge and Sequence.Truncate, randomised for expression trees, SubMergers, SubMerge incl. SHIFT; operands byte-compared before/after.", "Trusts the monitor's own period->updates model; values are dyadic so sums are exact.", "runtime reference-model monitor + operand snapshot comparison (exhaustive bounded window + random)", "§3 C05"),
 "C06": ("exploration", "Bucket oracle from raw points (T_j = until - j*P) + disjointness + _points conservation over generated coarse groupings (dim subsets, period multiples, beyond-window, non-multiples must error).", "Virtual clock = newest accepted timestamp; don't-care for empty aggregates and x/0.", "runtime reference-model monitor", "§3 C06"),
 "C07": ("exploration", "Differential against the unbounded query with must-include/must-exclude/straddler-free partition at native resolution, bucket oracle with period(P), default window vs (now-retention, now] incl. retention not a multiple of resolution.", "Virtual clock; straddlers free; asOf before table asOf may be refused.", "runtime differential + reference-model monitor", "§3 C07"),

 "C08": ("exploration", "Differentials: query WHERE p vs sibling table defined WHERE p; WHERE vs reference aggregator over matching points; HAVING vs filtered HAVING-free rows (no _having column, near-equal constants); IN (subquery) vs literal list (also two subqueries); FROM (subquery) vs re-aggregation of materialised rows.", "Query-time WHERE only sees key dims (tables group by all generated dims); strict operators only between two HAVING fields.", "runtime differential monitors + reference-model monitor", "§3 C08"),
 "C09": ("exploration", "On every ORDER BY / LIMIT / OFFSET result: multiset equality with the unordered query, sortedness under the monitor's comparator (ties free), LIMIT/OFFSET window by key tuple; hostile mixed-type dims need totality only.", "Missing dims sort first; order between different dynamic types unspecified.", "runtime monitor with own comparator over generated queries", "§3 C09"),
 "C16": ("exploration", "SQL: generated+mutated strings through sql.Parse, sql.TableFor, DB.Query (plan) under recover with a 30s hang detector; inserts: hostile payloads via Insert/InsertRaw interleaved with valid unique-id points, all valid ids must be present exactly once afterwards, stalled ingestion detected by progress counters.", "Executing a plan is not judged; a stall = no progress at all for 10s while behind.", "runtime fuzzing monitor (panic/hang capture) + exactly-once history check", "§3 C16"),
}
m = {
 "version": 1,
 "setup_cmd": "./run.sh build",
 "hooks": {"guard": "verif (Go build tag)", "enable": "go build -tags verif (run.sh builds /verif/cmd/vcheck against /repo with -tags verif)",
   "baseline_off_cmd": "cd /repo && GOFLAGS=-mod=mod GOPROXY=off GOSUMDB=off GOTOOLCHAIN=local go test -vet=off -count=1 -timeout 25m ./...",
   "source_commits": ["4c83eb7", "b8c4354", "e37d8c0"], "add_only": True},
 "engines": [{"name": "vcheck", "path": "/verif/cmd/vcheck", "serves_properties": sorted(CHECKS), "kind_free_text": "Go harness: runtime monitors (reference models, differential/metamorphic oracles, history checkers) over the real code, case scheduling over recycled worker processes, race-detector builds"}],
 "checks": [], "notes": "Technique family: runtime monitoring and sanitizers. See DESIGN.md.", "not_applicable": []}
for pid in sorted(CHECKS):
    level, text, note, tech, ref = CHECKS[pid]
    m["checks"].append({"property_id": pid, "quick_cmd": "./run.sh %s quick" % pid, "thorough_cmd": "./run.sh %s thorough" % pid,
      "evidence_file": "/verif/evidence/%s.json" % pid, "replay_cmd_template": "./run.sh %s quick --replay {path}" % pid, "engine": "vcheck",
      "level_claimed": {"category": level, "text": text, "design_ref": ref}, "level_note": note, "technique": tech})
props = [json.loads(l)["id"] for l in open("/verif/properties.jsonl")]
for p in props:
    if p not in CHECKS:
        m["not_applicable"].append({"property_id": p, "reason": "check under construction in this session (runtime monitor planned in DESIGN.md §3); not yet claimed"})
json.dump(m, open("/verif/MANIFEST.json", "w"), indent=1)
print("manifest written:", sorted(CHECKS))
