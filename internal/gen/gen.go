// Package gen holds the PRNG generators shared by the monitors: predicates,
// field lists, table specs, points and timestamps.
package gen

import (
	"fmt"
	"math/rand"
	"time"

	"verif/internal/ref"
)

// Base is the start of every generated dataset (aligned to every resolution used).
var Base = time.Date(2021, 3, 1, 0, 0, 0, 0, time.UTC)

var Resolutions = []time.Duration{time.Second, 2 * time.Second, 5 * time.Second, time.Minute, 100 * time.Millisecond, 200 * time.Millisecond}

var StrVals = []string{"a", "b", "c", "dd"}

// Pred generates a well-typed predicate over the always-present dims s (string), n (int), b (bool).
func Pred(r *rand.Rand, depth int) *ref.Pred {
	if depth > 0 && r.Intn(3) == 0 {
		switch r.Intn(3) {
		case 0:
			return &ref.Pred{Op: "and", L: Pred(r, depth-1), R: Pred(r, depth-1)}
		case 1:
			return &ref.Pred{Op: "or", L: Pred(r, depth-1), R: Pred(r, depth-1)}
		default:
			return &ref.Pred{Op: "not", L: Pred(r, depth-1)}
		}
	}
	switch r.Intn(6) {
	case 0:
		return &ref.Pred{Op: []string{"=", "<>"}[r.Intn(2)], Dim: "s", Lit: StrVals[r.Intn(len(StrVals))]}
	case 1:
		return &ref.Pred{Op: []string{"<", ">", "<=", ">="}[r.Intn(4)], Dim: "s", Lit: StrVals[r.Intn(len(StrVals))]}
	case 2:
		return &ref.Pred{Op: []string{"=", "<>", "<", ">", "<=", ">="}[r.Intn(6)], Dim: "n", Lit: r.Intn(4)}
	case 3:
		return &ref.Pred{Op: "=", Dim: "b", Lit: r.Intn(2) == 0}
	case 4:
		k := 1 + r.Intn(3)
		var lits []interface{}
		for i := 0; i < k; i++ {
			lits = append(lits, StrVals[r.Intn(len(StrVals))])
		}
		return &ref.Pred{Op: "in", Dim: "s", Lits: lits}
	default:
		k := 1 + r.Intn(3)
		var lits []interface{}
		for i := 0; i < k; i++ {
			lits = append(lits, r.Intn(4))
		}
		return &ref.Pred{Op: "in", Dim: "n", Lits: lits}
	}
}

var ValFields = []string{"x", "y", "z"}

// Fields generates 1..max distinct fields from the supported aggregate grammar.
func Fields(r *rand.Rand, max int) []ref.FieldDef {
	n := 1 + r.Intn(max)
	var out []ref.FieldDef
	used := map[string]bool{}
	for len(out) < n {
		a := ValFields[r.Intn(len(ValFields))]
		b := ValFields[r.Intn(len(ValFields))]
		var f ref.FieldDef
		switch r.Intn(15) {
		case 13, 14:
			// an IF-conditioned aggregate inside arithmetic (first and last operand, symmetric and not)
			f = ref.FieldDef{Kind: []string{"ifsub", "subif", "ifmaxdivcount"}[r.Intn(3)], A: a, B: b, Cond: Pred(r, 1)}
		case 0:
			f = ref.FieldDef{Kind: "bare", A: a, Name: a}
		case 1, 2:
			f = ref.FieldDef{Kind: "sum", A: a}
		case 3:
			f = ref.FieldDef{Kind: "count", A: a}
		case 4:
			f = ref.FieldDef{Kind: "min", A: a}
		case 5:
			f = ref.FieldDef{Kind: "max", A: a}
		case 6:
			f = ref.FieldDef{Kind: "avg", A: a}
		case 7:
			f = ref.FieldDef{Kind: "wavg", A: a, B: b}
		case 8:
			f = ref.FieldDef{Kind: []string{"add", "sub"}[r.Intn(2)], A: a, B: b}
		case 9:
			f = ref.FieldDef{Kind: "muldivcount", A: a, B: b}
		case 10:
			f = ref.FieldDef{Kind: "ifsum", A: a, Cond: Pred(r, 1)}
		case 11:
			lo := float64(r.Intn(20) - 10)
			f = ref.FieldDef{Kind: "avgbounded", A: a, Lo: lo, Hi: lo + float64(1+r.Intn(30))}
		default:
			lo := float64(r.Intn(20) - 10)
			f = ref.FieldDef{Kind: "sumbounded", A: a, Lo: lo, Hi: lo + float64(1+r.Intn(30))}
		}
		if f.Name == "" {
			f.Name = fmt.Sprintf("f%d_%s", len(out), f.Kind)
		}
		if used[f.Name] {
			continue
		}
		used[f.Name] = true
		out = append(out, f)
	}
	return out
}

// GroupDims are the dims a table may group by. s,n,b are always present and typed; m is
// sometimes missing and of mixed type; fl is a float dim (a dim literally named f or t would be parsed as a boolean constant by the SQL layer).
var GroupDims = []string{"s", "n", "b", "m", "fl"}

// Table generates a table spec on the given stream.
func Table(r *rand.Rand, name, stream string) ref.TableSpec {
	t := ref.TableSpec{Name: name, Stream: stream, Res: Resolutions[r.Intn(len(Resolutions))]}
	if r.Intn(3) != 0 {
		perm := r.Perm(len(GroupDims))
		k := 1 + r.Intn(len(GroupDims))
		for _, i := range perm[:k] {
			t.GroupBy = append(t.GroupBy, GroupDims[i])
		}
	}
	if r.Intn(2) == 0 {
		t.Where = Pred(r, 2)
	}
	t.Fields = Fields(r, 5)
	return t
}

// Dims generates a point's dimensions.
func Dims(r *rand.Rand) map[string]interface{} {
	d := map[string]interface{}{
		"s": StrVals[r.Intn(len(StrVals))],
		"n": r.Intn(4),
		"b": r.Intn(2) == 0,
	}
	switch r.Intn(6) {
	case 0: // missing
	case 1:
		d["m"] = r.Intn(3)
	case 2:
		d["m"] = float64(r.Intn(3))
	case 3:
		d["m"] = r.Intn(2) == 0
	default:
		d["m"] = []string{"0", "1", "u"}[r.Intn(3)]
	}
	if r.Intn(3) != 0 {
		d["fl"] = []float64{1.5, 2, -0.25}[r.Intn(3)]
	}
	return d
}

// Value generates a dyadic value (exact sums) as float64 or int.
func Value(r *rand.Rand) interface{} {
	if r.Intn(3) == 0 {
		return r.Intn(41) - 8
	}
	return float64(r.Intn(241)-40) / 4
}

// Vals generates a point's values: numeric, sometimes missing, sometimes extra or non-numeric.
func Vals(r *rand.Rand) map[string]interface{} {
	v := map[string]interface{}{}
	for _, f := range ValFields {
		switch r.Intn(8) {
		case 0: // missing
		case 1:
			if r.Intn(3) == 0 {
				v[f] = "not-a-number"
			} else {
				v[f] = Value(r)
			}
		default:
			v[f] = Value(r)
		}
	}
	if r.Intn(6) == 0 {
		v["extra"] = Value(r)
	}
	if r.Intn(12) == 0 {
		v["flag"] = true
	}
	return v
}

// Timestamp generates a timestamp inside [Base, Base+span] with exact period boundaries
// of res and +-1ns neighbours over-represented.
func Timestamp(r *rand.Rand, span time.Duration, res time.Duration) time.Time {
	off := time.Duration(r.Int63n(int64(span)))
	switch r.Intn(6) {
	case 0:
		off = off / res * res
	case 1:
		off = off/res*res + 1
	case 2:
		off = off/res*res - 1
		if off < 0 {
			off = 0
		}
	}
	return Base.Add(off)
}

// Points generates n points over span.
func Points(r *rand.Rand, n int, span time.Duration, res time.Duration) []ref.Point {
	out := make([]ref.Point, 0, n)
	for i := 0; i < n; i++ {
		p := ref.Point{ID: i, TS: Timestamp(r, span, res), Dims: Dims(r), Vals: Vals(r)}
		if r.Intn(10) == 0 && i > 0 {
			// duplicate of an earlier point (same dims and ts, fresh values)
			q := out[r.Intn(len(out))]
			p.TS = q.TS
			p.Dims = q.Dims
		}
		out = append(out, p)
	}
	return out
}
