// Package ref is the monitors' independent reference model: schemas as
// structures (rendered to SQL for zenodb, interpreted here without zenodb's
// parser or expression code), raw points, predicate evaluation and aggregation
// into (key, period) cells and coarse buckets.
package ref

import (
	"fmt"
	"math"
	"sort"
	"strings"
	"time"
)

// Point is one raw inserted point.
type Point struct {
	ID   int
	TS   time.Time
	Dims map[string]interface{}
	Vals map[string]interface{}
}

// Numeric returns the values zenodb accepts (Go float64 or int).
func (p *Point) Numeric() map[string]float64 {
	out := map[string]float64{}
	for k, v := range p.Vals {
		switch x := v.(type) {
		case float64:
			out[k] = x
		case int:
			out[k] = float64(x)
		case []float64:
			// an array value: its first element belongs to the point itself, every further element
			// is inserted as a point of its own that carries only this field (see Expand)
			if len(x) > 0 {
				out[k] = x[0]
			}
		case []int:
			if len(x) > 0 {
				out[k] = float64(x[0])
			}
		}
	}
	return out
}

// ArrayElementsTwice switches Expand to what the pinned tree does (and its own TestSingleDB expects): every
// array element after the first is inserted twice, because insert.go collects the additional values inside a
// bytemap.Build callback that runs twice. Recorded as a known finding under C01; see DESIGN.md.
var ArrayElementsTwice bool

// Expand returns the points zenodb makes of p: p itself and, for every array value, one further point
// per additional element with the same timestamp and dimensions and only that field ("separate
// inserts for additional values", insert.go). Every one of them counts in _points.
func (p *Point) Expand() []Point {
	out := []Point{*p}
	times := 1
	if ArrayElementsTwice {
		times = 2
	}
	var names []string
	for k := range p.Vals {
		names = append(names, k)
	}
	sort.Strings(names)
	for _, k := range names {
		switch x := p.Vals[k].(type) {
		case []float64:
			for _, e := range x[1:] {
				for n := 0; n < times; n++ {
					out = append(out, Point{ID: p.ID, TS: p.TS, Dims: p.Dims, Vals: map[string]interface{}{k: e}})
				}
			}
		case []int:
			for _, e := range x[1:] {
				for n := 0; n < times; n++ {
					out = append(out, Point{ID: p.ID, TS: p.TS, Dims: p.Dims, Vals: map[string]interface{}{k: e}})
				}
			}
		}
	}
	return out
}

// ------------------------------------------------------------------------------------------
// predicates over dimensions (well-typed, present dims only)

type Pred struct {
	Op   string // = <> < > <= >= in and or not
	Dim  string
	Lit  interface{}
	Lits []interface{}
	L, R *Pred
}

func lit(v interface{}) string {
	switch x := v.(type) {
	case string:
		return "'" + x + "'"
	case bool:
		if x {
			return "TRUE"
		}
		return "FALSE"
	default:
		return fmt.Sprint(v)
	}
}

// SQL renders the predicate.
func (p *Pred) SQL() string {
	switch p.Op {
	case "and":
		return "(" + p.L.SQL() + " AND " + p.R.SQL() + ")"
	case "or":
		return "(" + p.L.SQL() + " OR " + p.R.SQL() + ")"
	case "not":
		return "NOT (" + p.L.SQL() + ")"
	case "in":
		var parts []string
		for _, l := range p.Lits {
			parts = append(parts, lit(l))
		}
		return p.Dim + " IN (" + strings.Join(parts, ", ") + ")"
	default:
		return p.Dim + " " + p.Op + " " + lit(p.Lit)
	}
}

func cmp(a, b interface{}) (int, bool) {
	switch x := a.(type) {
	case string:
		y, ok := b.(string)
		if !ok {
			return 0, false
		}
		return strings.Compare(x, y), true
	case int:
		y, ok := b.(int)
		if !ok {
			return 0, false
		}
		switch {
		case x < y:
			return -1, true
		case x > y:
			return 1, true
		}
		return 0, true
	case bool:
		y, ok := b.(bool)
		if !ok {
			return 0, false
		}
		if x == y {
			return 0, true
		}
		if !x && y {
			return -1, true
		}
		return 1, true
	case float64:
		y, ok := b.(float64)
		if !ok {
			return 0, false
		}
		switch {
		case x < y:
			return -1, true
		case x > y:
			return 1, true
		}
		return 0, true
	}
	return 0, false
}

// Eval evaluates the predicate; ok=false when a dim is missing or ill-typed
// (outside the evaluator's domain).
func (p *Pred) Eval(dims map[string]interface{}) (res bool, ok bool) {
	switch p.Op {
	case "and":
		l, ok1 := p.L.Eval(dims)
		r, ok2 := p.R.Eval(dims)
		return l && r, ok1 && ok2
	case "or":
		l, ok1 := p.L.Eval(dims)
		r, ok2 := p.R.Eval(dims)
		return l || r, ok1 && ok2
	case "not":
		l, ok1 := p.L.Eval(dims)
		return !l, ok1
	case "in":
		v, present := dims[p.Dim]
		if !present {
			return false, false
		}
		for _, l := range p.Lits {
			c, ok := cmp(v, l)
			if !ok {
				return false, false
			}
			if c == 0 {
				return true, true
			}
		}
		return false, true
	}
	v, present := dims[p.Dim]
	if !present {
		return false, false
	}
	c, ok := cmp(v, p.Lit)
	if !ok {
		return false, false
	}
	switch p.Op {
	case "=":
		return c == 0, true
	case "<>":
		return c != 0, true
	case "<":
		return c < 0, true
	case ">":
		return c > 0, true
	case "<=":
		return c <= 0, true
	case ">=":
		return c >= 0, true
	}
	return false, false
}

// ------------------------------------------------------------------------------------------
// fields

// FieldDef is a table field in structured form.
type FieldDef struct {
	Name string
	Kind string // sum count min max avg wavg bare add sub muldivcount ifsum ifsub subif ifmaxdivcount avgbounded sumbounded
	A, B string
	Cond *Pred
	Lo   float64
	Hi   float64
	Raw  string // kind "raw": literal select expression (differential monitors only; the reference cannot evaluate it)
}

// SQL renders the select expression for the field.
func (f *FieldDef) SQL() string {
	var e string
	switch f.Kind {
	case "raw":
		return f.Raw + " AS " + f.Name
	case "bare":
		return f.A + " AS " + f.Name
	case "sum", "count", "min", "max", "avg":
		e = strings.ToUpper(f.Kind) + "(" + f.A + ")"
	case "wavg":
		e = "WAVG(" + f.A + ", " + f.B + ")"
	case "add":
		e = "SUM(" + f.A + ") + SUM(" + f.B + ")"
	case "sub":
		e = "SUM(" + f.A + ") - SUM(" + f.B + ")"
	case "muldivcount":
		e = "SUM(" + f.A + ") * SUM(" + f.B + ") / COUNT(" + f.B + ")"
	case "ifsum":
		e = "IF(" + f.Cond.SQL() + ", SUM(" + f.A + "))"
	case "ifsub":
		e = "IF(" + f.Cond.SQL() + ", SUM(" + f.A + ")) - SUM(" + f.B + ")"
	case "subif":
		e = "SUM(" + f.B + ") - IF(" + f.Cond.SQL() + ", SUM(" + f.A + "))"
	case "ifmaxdivcount":
		e = "IF(" + f.Cond.SQL() + ", MAX(" + f.A + ")) / COUNT(" + f.B + ")"
	case "avgbounded":
		e = fmt.Sprintf("AVG(BOUNDED(%s, %v, %v))", f.A, f.Lo, f.Hi)
	case "sumbounded":
		e = fmt.Sprintf("SUM(BOUNDED(%s, %v, %v))", f.A, f.Lo, f.Hi)
	default:
		panic("unknown field kind " + f.Kind)
	}
	return e + " AS " + f.Name
}

// Acc accumulates one field over the accepted points of a cell. It keeps the
// components so that cells can be combined into coarse buckets exactly.
type Acc struct {
	SumA, SumB  float64
	CntA, CntB  float64
	MinA, MaxA  float64
	SumAW, SumW float64 // weighted
	NA          int     // points with A present (after IF/BOUNDED)
	NB          int
	OutOfDomain bool // a condition could not be evaluated by the reference
}

// Add feeds one accepted point.
func (a *Acc) Add(f *FieldDef, vals map[string]float64, dims map[string]interface{}) {
	va, okA := vals[f.A]
	vb, okB := vals[f.B]
	switch f.Kind {
	case "ifsum":
		in, ok := f.Cond.Eval(dims)
		if !ok {
			a.OutOfDomain = true
			return
		}
		if !in {
			return
		}
	case "ifsub", "subif", "ifmaxdivcount":
		// the condition gates only the first aggregate; the other operand sees every accepted point
		in, ok := f.Cond.Eval(dims)
		if !ok {
			a.OutOfDomain = true
			return
		}
		if !in {
			okA = false
		}
	case "avgbounded", "sumbounded":
		if okA && (va < f.Lo || va > f.Hi) {
			okA = false
		}
	}
	if okA {
		if a.NA == 0 || va < a.MinA {
			a.MinA = va
		}
		if a.NA == 0 || va > a.MaxA {
			a.MaxA = va
		}
		a.NA++
		a.SumA += va
		a.CntA++
		w := 0.0
		if f.Kind == "wavg" && okB {
			w = vb
		}
		a.SumAW += va * w
		a.SumW += w
	}
	if okB {
		a.NB++
		a.SumB += vb
		a.CntB++
	}
}

// Merge combines another accumulator of the same field into a.
func (a *Acc) Merge(b *Acc) {
	if b.NA > 0 {
		if a.NA == 0 || b.MinA < a.MinA {
			a.MinA = b.MinA
		}
		if a.NA == 0 || b.MaxA > a.MaxA {
			a.MaxA = b.MaxA
		}
	}
	a.NA += b.NA
	a.NB += b.NB
	a.SumA += b.SumA
	a.SumB += b.SumB
	a.CntA += b.CntA
	a.CntB += b.CntB
	a.SumAW += b.SumAW
	a.SumW += b.SumW
	a.OutOfDomain = a.OutOfDomain || b.OutOfDomain
}

// Value returns the field's value, whether zenodb would consider it set, and
// whether the value is a don't-care (aggregate over nothing, division by zero,
// condition outside the reference evaluator's domain).
func (a *Acc) Value(f *FieldDef) (val float64, set bool, dontCare bool) {
	if a.OutOfDomain {
		return 0, false, true
	}
	switch f.Kind {
	case "bare", "sum", "ifsum", "sumbounded":
		return a.SumA, a.NA > 0, false
	case "count":
		return a.CntA, a.NA > 0, false
	case "min":
		if a.NA == 0 {
			return 0, false, true
		}
		return a.MinA, true, false
	case "max":
		if a.NA == 0 {
			return 0, false, true
		}
		return a.MaxA, true, false
	case "avg", "avgbounded":
		if a.NA == 0 {
			return 0, false, true
		}
		return a.SumA / a.CntA, true, false
	case "wavg":
		if a.NA == 0 || a.SumW == 0 {
			return 0, a.NA > 0, true
		}
		return a.SumAW / a.SumW, true, false
	case "add":
		return a.SumA + a.SumB, a.NA > 0 || a.NB > 0, false
	case "sub", "ifsub":
		return a.SumA - a.SumB, a.NA > 0 || a.NB > 0, false
	case "subif":
		return a.SumB - a.SumA, a.NA > 0 || a.NB > 0, false
	case "ifmaxdivcount":
		if a.NA == 0 || a.CntB == 0 {
			return 0, a.NA > 0 || a.NB > 0, true
		}
		return a.MaxA / a.CntB, true, false
	case "muldivcount":
		if a.CntB == 0 {
			return 0, a.NA > 0 || a.NB > 0, true
		}
		return a.SumA * a.SumB / a.CntB, true, false
	}
	panic("unknown kind " + f.Kind)
}

// ------------------------------------------------------------------------------------------
// tables

// TableSpec is a table (or view, already resolved against its base table).
type TableSpec struct {
	Name      string
	Stream    string
	GroupBy   []string // nil/empty = all dims (*)
	Res       time.Duration
	Retention time.Duration
	Where     *Pred
	Fields    []FieldDef
	// view support: ViewOf names the base table; ViewWhere is the view's own predicate
	// (Where holds the combined predicate), ViewSelect the selected base field names (nil = *).
	ViewOf     string
	ViewWhere  *Pred
	ViewSelect []string
	ViewGroup  bool // view specifies its own GROUP BY dims
}

// SQL renders the table definition.
func (t *TableSpec) SQL() string {
	var sb strings.Builder
	sb.WriteString("SELECT ")
	if t.ViewOf != "" {
		if t.ViewSelect == nil {
			sb.WriteString("*")
		} else {
			sb.WriteString(strings.Join(t.ViewSelect, ", "))
		}
		sb.WriteString(" FROM " + t.ViewOf)
		if t.ViewWhere != nil {
			sb.WriteString(" WHERE " + t.ViewWhere.SQL())
		}
		if t.ViewGroup {
			sb.WriteString(" GROUP BY " + strings.Join(t.GroupBy, ", "))
		}
		return sb.String()
	}
	for i := range t.Fields {
		if i > 0 {
			sb.WriteString(", ")
		}
		sb.WriteString(t.Fields[i].SQL())
	}
	sb.WriteString(" FROM " + t.Stream)
	if t.Where != nil {
		sb.WriteString(" WHERE " + t.Where.SQL())
	}
	sb.WriteString(" GROUP BY ")
	if len(t.GroupBy) == 0 {
		sb.WriteString("*")
	} else {
		sb.WriteString(strings.Join(t.GroupBy, ", "))
	}
	sb.WriteString(fmt.Sprintf(", period(%v)", t.Res))
	return sb.String()
}

// CeilTime returns the smallest multiple of res (Unix grid) >= ts.
func CeilTime(ts time.Time, res time.Duration) time.Time {
	n := ts.UnixNano()
	r := int64(res)
	q := n / r
	if n%r != 0 && n > 0 {
		q++
	}
	if n%r != 0 && n < 0 {
		// toward +inf for negatives: integer division already truncates toward zero
	}
	return time.Unix(0, q*r).UTC()
}

// Cell is one (key, period) aggregate.
type Cell struct {
	TS     int64
	Key    string
	Dims   map[string]interface{}
	Points int
	IDs    []int
	Accs   []Acc
}

// Accepts reports whether the table accepts the point (WHERE true and at least one
// numeric value); ok=false when the WHERE is outside the evaluator's domain.
func (t *TableSpec) Accepts(p *Point) (accepted bool, ok bool) {
	if t.Where != nil {
		in, ok := t.Where.Eval(p.Dims)
		if !ok {
			return false, false
		}
		if !in {
			return false, true
		}
	}
	return len(p.Numeric()) > 0, true
}

// KeyOf projects dims onto the group-by dims (all dims when groupBy is empty).
func KeyOf(dims map[string]interface{}, groupBy []string) map[string]interface{} {
	if len(groupBy) == 0 {
		out := make(map[string]interface{}, len(dims))
		for k, v := range dims {
			out[k] = v
		}
		return out
	}
	out := map[string]interface{}{}
	for _, g := range groupBy {
		if v, ok := dims[g]; ok && v != nil {
			out[g] = v
		}
	}
	return out
}

// CanonKey mirrors dbh.CanonKey.
func CanonKey(m map[string]interface{}) string {
	names := make([]string, 0, len(m))
	for k := range m {
		names = append(names, k)
	}
	sort.Strings(names)
	var sb strings.Builder
	for i, k := range names {
		if i > 0 {
			sb.WriteByte(',')
		}
		sb.WriteString(k)
		sb.WriteByte('=')
		switch x := m[k].(type) {
		case nil:
			sb.WriteString("nil")
		case string:
			sb.WriteString("s:" + x)
		case bool:
			sb.WriteString(fmt.Sprintf("b:%v", x))
		case int:
			sb.WriteString(fmt.Sprintf("i:%d", x))
		case float64:
			sb.WriteString(fmt.Sprintf("f:%v", x))
		default:
			sb.WriteString(fmt.Sprintf("%T:%v", x, x))
		}
	}
	return sb.String()
}

// Aggregate computes the table's native cells from raw points. outOfDomain lists points whose
// acceptance the reference could not decide.
func (t *TableSpec) Aggregate(points []Point) (cells map[string]*Cell, outOfDomain int) {
	cells = map[string]*Cell{}
	var expanded []Point
	for i := range points {
		expanded = append(expanded, points[i].Expand()...)
	}
	points = expanded
	for i := range points {
		p := &points[i]
		acc, ok := t.Accepts(p)
		if !ok {
			outOfDomain++
			continue
		}
		if !acc {
			continue
		}
		key := KeyOf(p.Dims, t.GroupBy)
		ck := CanonKey(key)
		ts := CeilTime(p.TS, t.Res).UnixNano()
		id := fmt.Sprintf("%d|%s", ts, ck)
		c := cells[id]
		if c == nil {
			c = &Cell{TS: ts, Key: ck, Dims: key, Accs: make([]Acc, len(t.Fields))}
			cells[id] = c
		}
		c.Points++
		c.IDs = append(c.IDs, p.ID)
		vals := p.Numeric()
		for fi := range t.Fields {
			c.Accs[fi].Add(&t.Fields[fi], vals, p.Dims)
		}
	}
	return cells, outOfDomain
}

// Regroup projects native cells onto a subset of dims (nil = keep keys; empty non-nil = no dims)
// and onto coarse periods of length P anchored at until (bucket j ends at until - j*P and
// holds native periods with end in (T-P, T]), restricted to native periods in (asOf, until].
func Regroup(cells map[string]*Cell, fields []FieldDef, dims []string, keepKeys bool, P time.Duration, asOf, until time.Time) map[string]*Cell {
	out := map[string]*Cell{}
	for _, c := range cells {
		te := c.TS
		if te <= asOf.UnixNano() || te > until.UnixNano() {
			continue
		}
		j := (until.UnixNano() - te) / int64(P)
		T := until.UnixNano() - j*int64(P)
		var key map[string]interface{}
		if keepKeys {
			key = c.Dims
		} else {
			key = KeyOf(c.Dims, dims)
			if len(dims) == 0 {
				key = map[string]interface{}{}
			}
		}
		ck := CanonKey(key)
		id := fmt.Sprintf("%d|%s", T, ck)
		o := out[id]
		if o == nil {
			o = &Cell{TS: T, Key: ck, Dims: key, Accs: make([]Acc, len(fields))}
			out[id] = o
		}
		o.Points += c.Points
		o.IDs = append(o.IDs, c.IDs...)
		for i := range fields {
			o.Accs[i].Merge(&c.Accs[i])
		}
	}
	return out
}

// FloatEq: relative tolerance, -0 == 0.
func FloatEq(a, b, tol float64) bool {
	if a == b {
		return true
	}
	d := math.Abs(a - b)
	return d <= tol*math.Max(math.Abs(a), math.Abs(b))
}
