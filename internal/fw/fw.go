// Package fw is the small framework shared by all checks: case scheduling over
// recycled worker processes, verdicts, replay files, evidence files, known
// findings and the VIOLATION / KNOWN-FINDING output contract.
package fw

import (
	"bufio"
	"bytes"
	"crypto/sha1"
	"encoding/hex"
	"encoding/json"
	"fmt"
	"io/ioutil"
	"math/rand"
	"os"
	"os/exec"
	"path/filepath"
	"regexp"
	"runtime/debug"
	"sort"
	"strconv"
	"strings"
	"sync"
	"syscall"
	"time"
)

const (
	Held         = "held"
	Violated     = "violated"
	Inconclusive = "inconclusive"
)

// Violation is one observed refutation of the property inside a case.
type Violation struct {
	Sig    string      `json:"sig"`    // stable class signature, matched against known_findings.json
	Detail string      `json:"detail"` // human readable: what was expected, what was seen
	Data   interface{} `json:"data,omitempty"`
}

// CaseResult is what a worker reports for one case.
type CaseResult struct {
	Case       int              `json:"case"`
	Seed       int64            `json:"seed"`
	Verdict    string           `json:"verdict"`
	Nontrivial bool             `json:"nontrivial"`
	Hash       string           `json:"hash"`
	Note       string           `json:"note,omitempty"`
	Violations []Violation      `json:"violations,omitempty"`
	Obs        map[string]int64 `json:"obs,omitempty"`
	Sample     interface{}      `json:"sample,omitempty"`
	Race       bool             `json:"race_build,omitempty"`
	WallMS     int64            `json:"wall_ms"`
}

// Ctx is handed to a property's Run function for one case.
type Ctx struct {
	Prop    *Property
	Case    int
	Seed    int64
	Tier    string
	Rand    *rand.Rand
	Dir     string // fresh scratch directory for this case
	IsRace  bool
	res     *CaseResult
	hashSrc bytes.Buffer
}

func (c *Ctx) Quick() bool { return c.Tier == "quick" }

// Pick returns q for the quick tier and t for the thorough tier.
func (c *Ctx) Pick(q, t int) int {
	if c.Quick() {
		return q
	}
	return t
}

// Violate records a violation.
func (c *Ctx) Violate(sig, format string, args ...interface{}) {
	c.ViolateData(sig, nil, format, args...)
}

func (c *Ctx) ViolateData(sig string, data interface{}, format string, args ...interface{}) {
	if len(c.res.Violations) < 25 {
		c.res.Violations = append(c.res.Violations, Violation{Sig: sig, Detail: fmt.Sprintf(format, args...), Data: data})
	}
	c.res.Verdict = Violated
}

// Inconclusive marks the case as inconclusive (unless already violated).
func (c *Ctx) Inconclusive(format string, args ...interface{}) {
	if c.res.Verdict != Violated {
		c.res.Verdict = Inconclusive
	}
	c.res.Note = fmt.Sprintf(format, args...)
}

// Obs adds n to an observation counter.
func (c *Ctx) Obs(name string, n int64) {
	c.res.Obs[name] += n
}

// ObsMax keeps the maximum.
func (c *Ctx) ObsMax(name string, n int64) {
	if n > c.res.Obs[name] {
		c.res.Obs[name] = n
	}
}

// Nontrivial marks the case as non-trivial by the property's rule.
func (c *Ctx) Nontrivial(b bool) { c.res.Nontrivial = b }

// HashAdd feeds data into the case's distinctness hash.
func (c *Ctx) HashAdd(parts ...interface{}) {
	for _, p := range parts {
		fmt.Fprintf(&c.hashSrc, "%v|", p)
	}
}

// Sample sets the written-out sample for this case.
func (c *Ctx) Sample(s interface{}) { c.res.Sample = s }

func (c *Ctx) Violated() bool { return c.res.Verdict == Violated }

// Property describes one check.
type Property struct {
	ID          string
	Level       string
	Rule        string
	Explanation string
	Assumptions []string
	Exhaustive  bool
	// Cases returns the number of cases for the tier.
	Cases func(tier string) int
	// Batch is the number of cases per worker process (worker recycling).
	Batch int
	// Workers is the number of concurrent worker processes.
	Workers int
	// RaceEvery: every n-th batch runs in the race build (0 = never, 1 = always).
	RaceEvery int
	// RaceSig classifies a race report; "" means the report is not attributed to the property.
	RaceSig func(report string) string
	// BatchTimeout is the watchdog per worker process.
	BatchTimeout time.Duration
	// Run executes one case.
	Run func(c *Ctx)
	// PanicIsViolation: a panic escaping Run (or a worker crash) counts as a violation.
	PanicIsViolation bool
	// Finish may add run-level verdicts after aggregation (e.g. "no coalescing ever observed").
	Finish func(a *Agg)
	// MinConclusive is the minimum number of conclusive cases; below it the run is inconclusive.
	MinConclusive func(tier string) int
	// Env is extra environment for workers.
	Env []string
	// BenignCrash, if set, inspects the output tail of a worker that died while running a case; a
	// non-empty reason makes the case inconclusive instead of a violation (crashes of the system under
	// test that are outside the property, e.g. a start-up race of the server wiring).
	BenignCrash func(tail string) string
}

var registry = map[string]*Property{}

func Register(p *Property) {
	if p.Batch <= 0 {
		p.Batch = 20
	}
	if p.Workers <= 0 {
		p.Workers = 6
	}
	if p.BatchTimeout <= 0 {
		p.BatchTimeout = 20 * time.Minute
	}
	if p.Level == "" {
		p.Level = "exploration"
	}
	registry[p.ID] = p
}

func Get(id string) *Property { return registry[id] }

func IDs() []string {
	var ids []string
	for id := range registry {
		ids = append(ids, id)
	}
	sort.Strings(ids)
	return ids
}

// Root returns /verif.
func Root() string {
	if r := os.Getenv("VERIF_ROOT"); r != "" {
		return r
	}
	return "/verif"
}

// BinDir returns the directory holding the harness binaries.
func BinDir() string {
	if b := os.Getenv("VERIF_BIN"); b != "" {
		return b
	}
	return filepath.Join(Root(), "bin")
}

func masterSeed() int64 {
	if s := os.Getenv("VERIF_SEED"); s != "" {
		if n, err := strconv.ParseInt(s, 10, 64); err == nil {
			return n
		}
	}
	return 1
}

// CaseSeed derives the per-case seed.
func CaseSeed(id string, master int64, idx int) int64 {
	h := sha1.Sum([]byte(fmt.Sprintf("%s/%d/%d", id, master, idx)))
	var v int64
	for i := 0; i < 8; i++ {
		v = v<<8 | int64(h[i])
	}
	if v < 0 {
		v = -v
	}
	return v
}

// Agg is the aggregated outcome of a run.
type Agg struct {
	Prop         *Property
	Tier         string
	Seed         int64
	Results      []*CaseResult
	Obs          map[string]int64
	Races        map[string]string // sig -> first report
	RaceReports  int
	OtherRaces   map[string]int
	RunNotes     []string
	extraViol    []Violation
	inconclusive string
}

func (a *Agg) Violate(sig, format string, args ...interface{}) {
	a.extraViol = append(a.extraViol, Violation{Sig: sig, Detail: fmt.Sprintf(format, args...)})
}

func (a *Agg) MarkInconclusive(format string, args ...interface{}) {
	a.inconclusive = fmt.Sprintf(format, args...)
}

// ---------------------------------------------------------------------------------------------
// Worker side

// WorkerMain runs the cases idx (comma list) of property id and writes JSONL results to out.
func WorkerMain(id, tier string, idxs []int, seeds []int64, out string, isRace bool) int {
	p := Get(id)
	if p == nil {
		fmt.Fprintf(os.Stderr, "unknown property %s\n", id)
		return 3
	}
	f, err := os.OpenFile(out, os.O_CREATE|os.O_WRONLY|os.O_APPEND, 0644)
	if err != nil {
		fmt.Fprintln(os.Stderr, err)
		return 3
	}
	defer f.Close()
	scratch := os.Getenv("VERIF_SCRATCH")
	if scratch == "" {
		fmt.Fprintln(os.Stderr, "VERIF_SCRATCH not set")
		return 3
	}
	for i, idx := range idxs {
		fmt.Fprintf(f, "{\"begin\":%d}\n", idx)
		f.Sync()
		res := RunCase(p, tier, idx, seeds[i], scratch, isRace)
		b, _ := json.Marshal(res)
		f.Write(append(b, '\n'))
		f.Sync()
	}
	return 0
}

// RunCase executes one case in-process (with panic capture).
func RunCase(p *Property, tier string, idx int, seed int64, scratch string, isRace bool) (res *CaseResult) {
	dir := filepath.Join(scratch, fmt.Sprintf("case-%d-%d", idx, os.Getpid()))
	if err := os.MkdirAll(dir, 0755); err != nil {
		panic(err)
	}
	// zenodb's WAL reader goroutines outlive DB.Close() and panic the process if their directory
	// disappears, so only the files are removed here; the parent removes the scratch root at the end
	defer removeFilesKeepDirs(dir)
	res = &CaseResult{Case: idx, Seed: seed, Verdict: Held, Obs: map[string]int64{}, Race: isRace}
	c := &Ctx{Prop: p, Case: idx, Seed: seed, Tier: tier, Rand: rand.New(rand.NewSource(seed)), Dir: dir, IsRace: isRace, res: res}
	start := time.Now()
	func() {
		defer func() {
			if r := recover(); r != nil {
				stack := string(debug.Stack())
				if p.PanicIsViolation {
					c.ViolateData("panic:"+panicSig(stack), stack, "panic: %v", r)
				} else {
					res.Verdict = Inconclusive
					res.Note = fmt.Sprintf("harness panic: %v\n%s", r, stack)
				}
			}
		}()
		p.Run(c)
	}()
	res.WallMS = time.Since(start).Milliseconds()
	if res.Hash == "" {
		if c.hashSrc.Len() == 0 {
			fmt.Fprintf(&c.hashSrc, "seed=%d", seed)
		}
		h := sha1.Sum(c.hashSrc.Bytes())
		res.Hash = hex.EncodeToString(h[:8])
	}
	return res
}

var frameRe = regexp.MustCompile(`(?m)^(github\.com/getlantern/[^\s(]+|verif/[^\s(]+)\(`)

func panicSig(stack string) string {
	// first zenodb frame after the panic
	idx := strings.Index(stack, "panic(")
	s := stack
	if idx >= 0 {
		s = stack[idx:]
	}
	m := frameRe.FindAllStringSubmatch(s, 3)
	var parts []string
	for _, x := range m {
		parts = append(parts, x[1])
	}
	return strings.Join(parts, "<")
}

// ---------------------------------------------------------------------------------------------
// Parent side

type batch struct {
	idxs []int
	race bool
	n    int
}

// RunMain is the parent: schedules batches, aggregates, writes evidence, prints the verdict.
func RunMain(id, tier string, args []string) int {
	p := Get(id)
	if p == nil {
		fmt.Printf("unknown property %s (have %v)\n", id, IDs())
		return 3
	}
	if tier != "quick" && tier != "thorough" {
		fmt.Println("tier must be quick or thorough")
		return 3
	}
	master := masterSeed()
	var replay string
	var only []int
	for i := 0; i < len(args); i++ {
		switch args[i] {
		case "--replay":
			if i+1 < len(args) {
				replay = args[i+1]
				i++
			}
		case "--case":
			if i+1 < len(args) {
				for _, s := range strings.Split(args[i+1], ",") {
					n, _ := strconv.Atoi(s)
					only = append(only, n)
				}
				i++
			}
		}
	}
	start := time.Now()
	scratchBase := os.Getenv("VERIF_SCRATCH_BASE")
	if scratchBase == "" {
		scratchBase = os.TempDir()
	}
	scratch, err := ioutil.TempDir(scratchBase, "verif-"+id+"-")
	if err != nil {
		fmt.Println("cannot create scratch:", err)
		return 3
	}
	defer os.RemoveAll(scratch)
	tmp := filepath.Join(scratch, "tmp")
	os.MkdirAll(tmp, 0755)

	if replay != "" {
		return replayMain(p, replay, scratch, tmp)
	}
	if len(only) > 0 && os.Getenv("VERIF_OUT") == "" {
		// partial runs never overwrite the committed evidence / replays
		os.Setenv("VERIF_OUT", filepath.Join(scratch, "out"))
	}

	n := p.Cases(tier)
	var idxs []int
	if len(only) > 0 {
		idxs = only
	} else {
		for i := 0; i < n; i++ {
			idxs = append(idxs, i)
		}
	}
	var batches []*batch
	for i := 0; i < len(idxs); i += p.Batch {
		j := i + p.Batch
		if j > len(idxs) {
			j = len(idxs)
		}
		b := &batch{idxs: idxs[i:j], n: len(batches)}
		if p.RaceEvery > 0 && len(batches)%p.RaceEvery == p.RaceEvery-1 {
			b.race = true
		}
		batches = append(batches, b)
	}

	agg := &Agg{Prop: p, Tier: tier, Seed: master, Obs: map[string]int64{}, Races: map[string]string{}, OtherRaces: map[string]int{}}
	var mx sync.Mutex
	sem := make(chan struct{}, p.Workers)
	var wg sync.WaitGroup
	for _, b := range batches {
		wg.Add(1)
		sem <- struct{}{}
		go func(b *batch) {
			defer wg.Done()
			defer func() { <-sem }()
			results, races := runBatch(p, tier, master, b, scratch, tmp)
			mx.Lock()
			agg.Results = append(agg.Results, results...)
			for _, r := range races {
				agg.RaceReports++
				sig := ""
				if p.RaceSig != nil {
					sig = p.RaceSig(r)
				}
				if sig != "" {
					if _, ok := agg.Races[sig]; !ok {
						agg.Races[sig] = r
					}
				} else {
					agg.OtherRaces[raceKey(r)]++
				}
			}
			mx.Unlock()
		}(b)
	}
	wg.Wait()
	sort.Slice(agg.Results, func(i, j int) bool { return agg.Results[i].Case < agg.Results[j].Case })
	for _, r := range agg.Results {
		for k, v := range r.Obs {
			if strings.HasPrefix(k, "max:") {
				if v > agg.Obs[k] {
					agg.Obs[k] = v
				}
			} else {
				agg.Obs[k] += v
			}
		}
	}
	if p.Finish != nil {
		p.Finish(agg)
	}
	return conclude(agg, time.Since(start))
}

func raceKey(report string) string {
	// outermost zenodb frames of both stacks, line numbers stripped
	var fns []string
	for _, l := range strings.Split(report, "\n") {
		l = strings.TrimSpace(l)
		if strings.HasPrefix(l, "github.com/getlantern/zenodb") && strings.Contains(l, "(") {
			fns = append(fns, l[:strings.LastIndex(l, "(")])
			if len(fns) >= 4 {
				break
			}
		}
	}
	return strings.Join(fns, " | ")
}

func runBatch(p *Property, tier string, master int64, b *batch, scratch, tmp string) ([]*CaseResult, []string) {
	var all []*CaseResult
	var races []string
	remaining := append([]int(nil), b.idxs...)
	attempt := 0
	for len(remaining) > 0 {
		attempt++
		out := filepath.Join(scratch, fmt.Sprintf("batch-%d-%d.jsonl", b.n, attempt))
		errf := filepath.Join(scratch, fmt.Sprintf("batch-%d-%d.stderr", b.n, attempt))
		bin := filepath.Join(BinDir(), "vcheck")
		if b.race {
			bin += "-race"
		}
		var idxStr, seedStr []string
		for _, i := range remaining {
			idxStr = append(idxStr, strconv.Itoa(i))
			seedStr = append(seedStr, strconv.FormatInt(CaseSeed(p.ID, master, i), 10))
		}
		cmd := exec.Command(bin, "worker", p.ID, tier, strings.Join(idxStr, ","), strings.Join(seedStr, ","), out)
		raceLog := filepath.Join(scratch, fmt.Sprintf("race-%d-%d", b.n, attempt))
		cmd.Env = append(os.Environ(), "VERIF_SCRATCH="+scratch, "TMPDIR="+tmp, "VERIF_ROOT="+Root())
		if b.race {
			cmd.Env = append(cmd.Env, "GORACE=halt_on_error=0 log_path="+raceLog)
		}
		cmd.Env = append(cmd.Env, p.Env...)
		ef, _ := os.Create(errf)
		cmd.Stdout = ef
		cmd.Stderr = ef
		cmd.SysProcAttr = &syscall.SysProcAttr{Setpgid: true}
		if err := cmd.Start(); err != nil {
			ef.Close()
			for _, i := range remaining {
				all = append(all, &CaseResult{Case: i, Verdict: Inconclusive, Note: "cannot start worker: " + err.Error(), Obs: map[string]int64{}})
			}
			return all, races
		}
		done := make(chan error, 1)
		go func() { done <- cmd.Wait() }()
		timedOut := false
		select {
		case <-done:
		case <-time.After(p.BatchTimeout):
			timedOut = true
			syscall.Kill(-cmd.Process.Pid, syscall.SIGQUIT)
			select {
			case <-done:
			case <-time.After(10 * time.Second):
				syscall.Kill(-cmd.Process.Pid, syscall.SIGKILL)
				<-done
			}
		}
		ef.Close()
		syscall.Kill(-cmd.Process.Pid, syscall.SIGKILL) // stray children
		results, begun := readResults(out)
		doneSet := map[int]bool{}
		for _, r := range results {
			doneSet[r.Case] = true
			all = append(all, r)
		}
		// collect race reports
		matches, _ := filepath.Glob(raceLog + ".*")
		for _, m := range matches {
			data, _ := ioutil.ReadFile(m)
			races = append(races, splitRaces(string(data))...)
		}
		var next []int
		crashed := -1
		for _, i := range remaining {
			if doneSet[i] {
				continue
			}
			if crashed < 0 && begun[i] {
				crashed = i
				continue
			}
			next = append(next, i)
		}
		if crashed >= 0 {
			tail := tailFile(errf, 6000)
			r := &CaseResult{Case: crashed, Seed: CaseSeed(p.ID, master, crashed), Obs: map[string]int64{}, Race: b.race}
			if timedOut {
				r.Verdict = Inconclusive
				r.Note = "watchdog: worker killed after " + p.BatchTimeout.String() + "\n" + tail
			} else if reason := benign(p, tail); reason != "" {
				r.Verdict = Inconclusive
				r.Note = "worker died (" + reason + "):\n" + tail
			} else if p.PanicIsViolation {
				r.Verdict = Violated
				r.Violations = []Violation{{Sig: "crash:" + crashSig(tail), Detail: "worker process died while running this case", Data: tail}}
			} else {
				r.Verdict = Inconclusive
				r.Note = "worker died:\n" + tail
			}
			all = append(all, r)
		} else if len(next) == len(remaining) {
			// nothing begun at all: worker failed to start properly
			tail := tailFile(errf, 3000)
			for _, i := range next {
				all = append(all, &CaseResult{Case: i, Verdict: Inconclusive, Note: "worker produced nothing: " + tail, Obs: map[string]int64{}})
			}
			return all, races
		}
		remaining = next
		if attempt > len(b.idxs)+2 {
			break
		}
	}
	return all, races
}

func benign(p *Property, tail string) string {
	if p.BenignCrash == nil {
		return ""
	}
	return p.BenignCrash(tail)
}

func crashSig(tail string) string {
	if i := strings.Index(tail, "panic: "); i >= 0 {
		s := tail[i:]
		return "panic:" + panicSig(s)
	}
	if i := strings.Index(tail, "fatal error: "); i >= 0 {
		s := tail[i:]
		if j := strings.Index(s, "\n"); j > 0 {
			return s[:j]
		}
	}
	return "unknown"
}

func tailFile(path string, n int) string {
	data, _ := ioutil.ReadFile(path)
	// prefer the panic section if present
	if i := bytes.Index(data, []byte("panic: ")); i >= 0 {
		end := i + n
		if end > len(data) {
			end = len(data)
		}
		return string(data[i:end])
	}
	if i := bytes.Index(data, []byte("fatal error: ")); i >= 0 {
		end := i + n
		if end > len(data) {
			end = len(data)
		}
		return string(data[i:end])
	}
	if len(data) > n {
		data = data[len(data)-n:]
	}
	return string(data)
}

func splitRaces(s string) []string {
	var out []string
	parts := strings.Split(s, "==================")
	for _, p := range parts {
		if strings.Contains(p, "WARNING: DATA RACE") {
			out = append(out, strings.TrimSpace(p))
		}
	}
	return out
}

func readResults(path string) ([]*CaseResult, map[int]bool) {
	begun := map[int]bool{}
	var results []*CaseResult
	f, err := os.Open(path)
	if err != nil {
		return nil, begun
	}
	defer f.Close()
	sc := bufio.NewScanner(f)
	sc.Buffer(make([]byte, 1<<20), 1<<28)
	for sc.Scan() {
		line := sc.Bytes()
		var probe map[string]json.RawMessage
		if json.Unmarshal(line, &probe) != nil {
			continue
		}
		if b, ok := probe["begin"]; ok {
			n, _ := strconv.Atoi(string(b))
			begun[n] = true
			continue
		}
		r := &CaseResult{}
		if json.Unmarshal(line, r) == nil {
			if r.Obs == nil {
				r.Obs = map[string]int64{}
			}
			results = append(results, r)
		}
	}
	return results, begun
}

// ---------------------------------------------------------------------------------------------
// Known findings, evidence, verdict

type Finding struct {
	Property string `json:"property"`
	Status   string `json:"status"` // known | fixed
	Match    string `json:"match,omitempty"`
	Commit   string `json:"commit,omitempty"`
	What     string `json:"what"`
}

func loadFindings() []Finding {
	var doc struct {
		Findings []Finding `json:"findings"`
	}
	data, err := ioutil.ReadFile(filepath.Join(Root(), "known_findings.json"))
	if err != nil {
		return nil
	}
	json.Unmarshal(data, &doc)
	return doc.Findings
}

func matchKnown(findings []Finding, prop, sig string) *Finding {
	for i := range findings {
		f := &findings[i]
		if f.Property != prop || f.Status != "known" || f.Match == "" {
			continue
		}
		if re, err := regexp.Compile(f.Match); err == nil && re.MatchString(sig) {
			return f
		}
	}
	return nil
}

type replayDoc struct {
	Property   string      `json:"property"`
	Tier       string      `json:"tier"`
	MasterSeed int64       `json:"master_seed"`
	Case       int         `json:"case"`
	CaseSeed   int64       `json:"case_seed"`
	RaceBuild  bool        `json:"race_build"`
	Violations []Violation `json:"violations"`
	Sample     interface{} `json:"sample,omitempty"`
	Note       string      `json:"note,omitempty"`
}

func conclude(a *Agg, wall time.Duration) int {
	p := a.Prop
	findings := loadFindings()
	outRoot := Root()
	if o := os.Getenv("VERIF_OUT"); o != "" {
		outRoot = o
	}
	replayDir := filepath.Join(outRoot, "replays", p.ID)
	os.MkdirAll(replayDir, 0755)

	evaluations := len(a.Results)
	distinct := map[string]bool{}
	conclusive := 0
	inconclusive := 0
	var samples []interface{}
	var inconclusiveNotes []string
	nViol := 0
	knownHit := map[string]int{}
	knownFirst := map[string]string{}
	var violLines []string
	for _, r := range a.Results {
		switch r.Verdict {
		case Inconclusive:
			inconclusive++
			if len(inconclusiveNotes) < 5 {
				note := r.Note
				if len(note) > 600 {
					note = note[:600]
				}
				inconclusiveNotes = append(inconclusiveNotes, fmt.Sprintf("case %d: %s", r.Case, note))
			}
			continue
		default:
			conclusive++
		}
		if r.Nontrivial {
			distinct[r.Hash] = true
		}
		if r.Sample != nil && len(samples) < 4 {
			samples = append(samples, map[string]interface{}{"case": r.Case, "case_seed": r.Seed, "verdict": r.Verdict, "what": r.Sample})
		}
		if r.Verdict == Violated {
			var unknown []Violation
			for _, v := range r.Violations {
				if f := matchKnown(findings, p.ID, v.Sig); f != nil {
					knownHit[f.What]++
					if _, ok := knownFirst[f.What]; !ok {
						knownFirst[f.What] = fmt.Sprintf("case %d: %s", r.Case, v.Detail)
					}
				} else {
					unknown = append(unknown, v)
				}
			}
			if len(unknown) > 0 {
				nViol++
				path := filepath.Join(replayDir, fmt.Sprintf("%d-%d.json", a.Seed, r.Case))
				doc := replayDoc{Property: p.ID, Tier: a.Tier, MasterSeed: a.Seed, Case: r.Case, CaseSeed: r.Seed, RaceBuild: r.Race, Violations: unknown, Sample: r.Sample}
				b, _ := json.MarshalIndent(doc, "", " ")
				ioutil.WriteFile(path, b, 0644)
				if len(violLines) < 20 {
					violLines = append(violLines, fmt.Sprintf("VIOLATION property=%s replay=%s", p.ID, path))
					d := unknown[0].Detail
					if len(d) > 700 {
						d = d[:700] + "..."
					}
					violLines = append(violLines, fmt.Sprintf("  case=%d sig=%s : %s", r.Case, unknown[0].Sig, d))
				}
			}
		}
	}
	// race witnesses
	var raceSigs []string
	for sig := range a.Races {
		raceSigs = append(raceSigs, sig)
	}
	sort.Strings(raceSigs)
	for _, sig := range raceSigs {
		if f := matchKnown(findings, p.ID, "race:"+sig); f != nil {
			knownHit[f.What]++
			continue
		}
		nViol++
		path := filepath.Join(replayDir, fmt.Sprintf("%d-race-%s.json", a.Seed, shortHash(sig)))
		doc := replayDoc{Property: p.ID, Tier: a.Tier, MasterSeed: a.Seed, Case: -1, Violations: []Violation{{Sig: "race:" + sig, Detail: "data race reported by the Go race detector on state the property depends on", Data: a.Races[sig]}}}
		b, _ := json.MarshalIndent(doc, "", " ")
		ioutil.WriteFile(path, b, 0644)
		violLines = append(violLines, fmt.Sprintf("VIOLATION property=%s replay=%s", p.ID, path), "  race: "+sig)
	}
	for _, v := range a.extraViol {
		if f := matchKnown(findings, p.ID, v.Sig); f != nil {
			knownHit[f.What]++
			continue
		}
		nViol++
		path := filepath.Join(replayDir, fmt.Sprintf("%d-run-%s.json", a.Seed, shortHash(v.Sig)))
		doc := replayDoc{Property: p.ID, Tier: a.Tier, MasterSeed: a.Seed, Case: -1, Violations: []Violation{v}}
		b, _ := json.MarshalIndent(doc, "", " ")
		ioutil.WriteFile(path, b, 0644)
		violLines = append(violLines, fmt.Sprintf("VIOLATION property=%s replay=%s", p.ID, path), "  "+v.Sig+": "+v.Detail)
	}

	minC := 2
	if p.MinConclusive != nil {
		minC = p.MinConclusive(a.Tier)
	}
	runInconclusive := a.inconclusive
	if runInconclusive == "" && conclusive < minC {
		runInconclusive = fmt.Sprintf("only %d conclusive cases (< %d)", conclusive, minC)
	}

	cov := map[string]interface{}{
		"evaluations":         evaluations,
		"distinct_nontrivial": len(distinct),
		"rule":                p.Rule,
		"samples":             samples,
		"conclusive":          conclusive,
		"inconclusive":        inconclusive,
		"observations":        a.Obs,
		"race_reports_total":  a.RaceReports,
	}
	if len(samples) == 0 {
		cov["samples"] = []interface{}{"no sample recorded"}
	}
	if p.Explanation != "" {
		cov["explanation"] = p.Explanation
	}
	if p.Exhaustive {
		cov["exhaustive"] = true
	}
	if p.Level == "translation_validation" {
		cov["programs"] = evaluations
		if n := a.Obs["programs"]; n > 0 {
			cov["programs"] = int(n)
		}
		cov["disagreements_checked"] = int(a.Obs["disagreements_checked"])
	}
	if len(a.OtherRaces) > 0 {
		cov["race_reports_not_attributed"] = a.OtherRaces
	}
	if len(inconclusiveNotes) > 0 {
		cov["inconclusive_notes"] = inconclusiveNotes
	}
	if len(a.RunNotes) > 0 {
		cov["notes"] = a.RunNotes
	}
	if len(knownHit) > 0 {
		cov["known_findings_hit"] = knownHit
	}
	if runInconclusive != "" {
		cov["run_inconclusive"] = runInconclusive
	}
	ev := map[string]interface{}{
		"property_id": p.ID,
		"tier":        a.Tier,
		"seed":        a.Seed,
		"level":       p.Level,
		"coverage":    cov,
		"assumptions": p.Assumptions,
		"wall_s":      wall.Seconds(),
		"violations":  nViol,
	}
	b, _ := json.MarshalIndent(ev, "", " ")
	os.MkdirAll(filepath.Join(outRoot, "evidence"), 0755)
	ioutil.WriteFile(filepath.Join(outRoot, "evidence", p.ID+".json"), b, 0644)

	var known []string
	for what := range knownHit {
		known = append(known, what)
	}
	sort.Strings(known)
	for _, what := range known {
		fmt.Printf("KNOWN-FINDING: property=%s %s (seen %d times)\n", p.ID, what, knownHit[what])
		if d := knownFirst[what]; d != "" {
			if len(d) > 500 {
				d = d[:500] + "..."
			}
			fmt.Println("  first:", d)
		}
	}
	for _, l := range violLines {
		fmt.Println(l)
	}
	fmt.Printf("SUMMARY property=%s tier=%s seed=%d cases=%d conclusive=%d inconclusive=%d nontrivial_distinct=%d violations=%d wall=%.1fs\n",
		p.ID, a.Tier, a.Seed, evaluations, conclusive, inconclusive, len(distinct), nViol, wall.Seconds())
	var obsKeys []string
	for k := range a.Obs {
		obsKeys = append(obsKeys, k)
	}
	sort.Strings(obsKeys)
	for _, k := range obsKeys {
		fmt.Printf("  obs %s=%d\n", k, a.Obs[k])
	}
	for _, n := range inconclusiveNotes {
		fmt.Println("  inconclusive:", strings.Replace(n, "\n", "\n    ", -1))
	}
	if nViol > 0 {
		return 1
	}
	if runInconclusive != "" {
		fmt.Printf("INCONCLUSIVE property=%s %s\n", p.ID, runInconclusive)
		return 2
	}
	return 0
}

func shortHash(s string) string {
	h := sha1.Sum([]byte(s))
	return hex.EncodeToString(h[:5])
}

func replayMain(p *Property, file, scratch, tmp string) int {
	data, err := ioutil.ReadFile(file)
	if err != nil {
		fmt.Println(err)
		return 3
	}
	var doc replayDoc
	if err := json.Unmarshal(data, &doc); err != nil {
		fmt.Println(err)
		return 3
	}
	if doc.Case < 0 {
		fmt.Println("run-level finding (race / aggregate): re-run the check with VERIF_SEED =", doc.MasterSeed)
		return 3
	}
	os.Setenv("TMPDIR", tmp)
	os.Setenv("VERIF_SCRATCH", scratch)
	b := &batch{idxs: []int{doc.Case}, race: doc.RaceBuild}
	os.Setenv("VERIF_SEED", strconv.FormatInt(doc.MasterSeed, 10))
	results, _ := runBatch(p, doc.Tier, doc.MasterSeed, b, scratch, tmp)
	a := &Agg{Prop: p, Tier: doc.Tier, Seed: doc.MasterSeed, Results: results, Obs: map[string]int64{}, Races: map[string]string{}, OtherRaces: map[string]int{}}
	// replays never rewrite evidence: print only
	code := 0
	for _, r := range results {
		out, _ := json.MarshalIndent(r, "", " ")
		fmt.Println(string(out))
		if r.Verdict == Violated {
			fmt.Printf("VIOLATION property=%s replay=%s\n", p.ID, file)
			code = 1
		}
	}
	_ = a
	return code
}

// NewDebugCtx builds a context for ad-hoc debugging of a single case outside the scheduler.
func NewDebugCtx(p *Property, tier string, idx int, dir string) *Ctx {
	seed := CaseSeed(p.ID, masterSeed(), idx)
	res := &CaseResult{Case: idx, Seed: seed, Verdict: Held, Obs: map[string]int64{}}
	return &Ctx{Prop: p, Case: idx, Seed: seed, Tier: tier, Rand: rand.New(rand.NewSource(seed)), Dir: dir, res: res}
}

// DebugResult exposes the case result of a debug context.
func (c *Ctx) DebugResult() *CaseResult { return c.res }

func removeFilesKeepDirs(dir string) {
	filepath.Walk(dir, func(path string, info os.FileInfo, err error) error {
		if err == nil && !info.IsDir() {
			os.Remove(path)
		}
		return nil
	})
}
