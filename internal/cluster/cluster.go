// Package cluster runs real zenodb server.Server nodes (leaders, followers) inside the monitor's
// process: real gRPC over TLS on loopback, the real follow / remote-query wiring and reconnect
// loops, optional TCP proxies between followers and leaders for link cuts and delays.
package cluster

import (
	"fmt"
	"io"
	"io/ioutil"
	"net"
	"os"
	"os/exec"
	"path/filepath"
	"sort"
	"strings"
	"sync"
	"time"

	"github.com/getlantern/bytemap"
	"github.com/getlantern/zenodb"
	"github.com/getlantern/zenodb/rpc"
	"github.com/getlantern/zenodb/server"
	"github.com/spaolacci/murmur3"
)

// TableDef is one table of the cluster schema.
type TableDef struct {
	Name        string
	SQL         string
	Retention   time.Duration
	MaxFlush    time.Duration
	PartitionBy []string
}

// Config describes the cluster.
type Config struct {
	Dir           string
	Tables        []TableDef
	NumLeaders    int
	NumPartitions int
	Redundancy    int
	Proxied       bool // followers reach leaders through cut-able proxies
	QueryTimeout  time.Duration
	// FollowerMaxMemory, if > 0, is the followers' MaxMemoryRatio (a tiny value makes follower-side
	// scans fail with "out of memory" after 1000 rows)
	FollowerMaxMemory float64
	// ProcFollowers runs every follower as a child process (`NodeBin clusternode <spec>`), so that it
	// can be crashed (SIGKILL / crash points); leaders stay in-process.
	ProcFollowers bool
	NodeBin       string
	// LeaderMaxFollowQueue, if > 0, is the leaders' MaxFollowQueue (entries queued per follower before
	// the leader's follow loop blocks); the default is 100000
	LeaderMaxFollowQueue int
}

// Node is one server.
type Node struct {
	Role         string // leader | follower
	ID           int
	Partition    int
	Dir          string
	Addr         string
	HTTPSAddr    string
	S            *server.Server
	DB           *zenodb.DB
	runErr       chan error
	cl           *Cluster
	up           bool
	mx           sync.Mutex
	CloseHung    bool // a clean stop did not finish within StopTimeout
	StartupRaces int  // process starts repeated because the node died of the server's start-up race
	// process mode
	proc   bool
	cmd    *exec.Cmd
	exited chan struct{}
	client rpc.Client
	starts int
}

// Proxy is a TCP forwarder that can be cut and restored.
type Proxy struct {
	ln     net.Listener
	target string
	mx     sync.Mutex
	cut    bool
	hole   bool // swallow traffic silently (connections stay open, nothing is forwarded)
	delay  time.Duration
	conns  map[net.Conn]bool
}

type Cluster struct {
	Cfg       Config
	Schema    string
	Leaders   []*Node
	Followers [][]*Node          // [partition][replica]
	Proxies   map[string]*Proxy  // key: follower addr + ">" + leader addr
	proxyFor  map[*Node][]*Proxy // follower -> its proxies (in leader order)
}

func freePort() int {
	l, err := net.Listen("tcp", "127.0.0.1:0")
	if err != nil {
		panic(err)
	}
	defer l.Close()
	return l.Addr().(*net.TCPAddr).Port
}

func schemaYAML(tables []TableDef) string {
	var sb strings.Builder
	for _, t := range tables {
		sb.WriteString(t.Name + ":\n")
		sb.WriteString(fmt.Sprintf("  retentionperiod: %v\n", t.Retention))
		if t.MaxFlush > 0 {
			sb.WriteString(fmt.Sprintf("  maxflushlatency: %v\n", t.MaxFlush))
		}
		if len(t.PartitionBy) > 0 {
			sb.WriteString(fmt.Sprintf("  partitionby: [%s]\n", strings.Join(t.PartitionBy, ",")))
		}
		sb.WriteString("  sql: >\n    " + t.SQL + "\n")
	}
	return sb.String()
}

// New prepares (but does not start) a cluster.
func New(cfg Config) (*Cluster, error) {
	if err := os.MkdirAll(cfg.Dir, 0755); err != nil {
		return nil, err
	}
	c := &Cluster{Cfg: cfg, Proxies: map[string]*Proxy{}, proxyFor: map[*Node][]*Proxy{}}
	c.Schema = filepath.Join(cfg.Dir, "schema.yaml")
	if err := ioutil.WriteFile(c.Schema, []byte(schemaYAML(cfg.Tables)), 0644); err != nil {
		return nil, err
	}
	for i := 0; i < cfg.NumLeaders; i++ {
		n := &Node{Role: "leader", ID: (i + 1) * 9, Dir: filepath.Join(cfg.Dir, fmt.Sprintf("leader%d", i)), cl: c}
		n.Addr = fmt.Sprintf("127.0.0.1:%d", freePort())
		n.HTTPSAddr = fmt.Sprintf("127.0.0.1:%d", freePort())
		c.Leaders = append(c.Leaders, n)
	}
	for p := 0; p < cfg.NumPartitions; p++ {
		var reps []*Node
		for j := 0; j < cfg.Redundancy; j++ {
			n := &Node{Role: "follower", ID: j + 1, Partition: p, Dir: filepath.Join(cfg.Dir, fmt.Sprintf("follower%d_%d", p, j)), cl: c, proc: cfg.ProcFollowers}
			n.Addr = fmt.Sprintf("127.0.0.1:%d", freePort())
			n.HTTPSAddr = fmt.Sprintf("127.0.0.1:%d", freePort())
			reps = append(reps, n)
			if cfg.Proxied {
				for _, l := range c.Leaders {
					px, err := newProxy(l.Addr)
					if err != nil {
						return nil, err
					}
					c.Proxies[n.Addr+">"+l.Addr] = px
					c.proxyFor[n] = append(c.proxyFor[n], px)
				}
			}
		}
		c.Followers = append(c.Followers, reps)
	}
	return c, nil
}

func dontPanic(err interface{}) {
	fmt.Fprintf(os.Stderr, "VERIF-DBPANIC: %v\n", err)
}

// Start starts one node (again).
func (n *Node) Start() error {
	n.mx.Lock()
	defer n.mx.Unlock()
	if n.up {
		return nil
	}
	if n.proc {
		return n.startProc(nil)
	}
	c := n.cl
	os.MkdirAll(n.Dir, 0755)
	s := &server.Server{
		DBDir:                     n.Dir,
		Schema:                    c.Schema,
		Addr:                      n.Addr,
		HTTPSAddr:                 n.HTTPSAddr,
		Insecure:                  true,
		ID:                        n.ID,
		NumPartitions:             c.Cfg.NumPartitions,
		PKFile:                    filepath.Join(n.Dir, "pk.pem"),
		CertFile:                  filepath.Join(n.Dir, "cert.pem"),
		ListenTimeout:             10 * time.Second,
		IterationCoalesceInterval: time.Millisecond,
		Panic:                     dontPanic,
		ClusterQueryTimeout:       c.Cfg.QueryTimeout,
		WALSync:                   0,
	}
	if n.Role == "leader" {
		s.Passthrough = true
		s.MaxFollowQueue = c.Cfg.LeaderMaxFollowQueue
	} else {
		var addrs, overrides []string
		for li, l := range c.Leaders {
			addrs = append(addrs, fmt.Sprintf("%s|%d", l.Addr, l.ID))
			if c.Cfg.Proxied {
				overrides = append(overrides, c.proxyFor[n][li].Addr())
			}
		}
		s.Partition = n.Partition
		s.Capture = strings.Join(addrs, ",")
		s.Feed = strings.Join(addrs, ",")
		if c.Cfg.Proxied {
			s.CaptureOverride = strings.Join(overrides, ",")
			s.FeedOverride = strings.Join(overrides, ",")
		}
		s.MaxReconnectWaitTime = 250 * time.Millisecond
		s.MaxMemory = c.Cfg.FollowerMaxMemory
	}
	db, run, err := s.Prepare()
	if err != nil {
		return err
	}
	n.S, n.DB = s, db
	n.runErr = make(chan error, 1)
	go func() { n.runErr <- run() }()
	n.up = true
	return nil
}

// Stop closes the node cleanly (SIGTERM equivalent).
func (n *Node) Stop() {
	n.mx.Lock()
	defer n.mx.Unlock()
	if !n.up {
		return
	}
	if n.proc {
		n.stopProc()
		return
	}
	// Server.Close can block forever when a goroutine of the database never ends (e.g. a wedged follow
	// pipeline); the monitor must get its verdict out, so the wait is bounded and the node is abandoned
	// (the worker process is recycled anyway)
	done := make(chan struct{})
	go func(s *server.Server) { s.Close(); close(done) }(n.S)
	select {
	case <-done:
	case <-time.After(StopTimeout):
		n.CloseHung = true
		fmt.Fprintf(os.Stderr, "VERIF-CLOSE-HUNG %s %d.%d\n", n.Role, n.Partition, n.ID)
	}
	n.up = false
}

// StartupRace recognises, in the output of a dying node, the start-up race of zenodb's server wiring:
// DBOpts.Follow (server.(*Server).follow) uses s.db, which is only assigned when zenodb.NewDB has returned,
// while NewDB's own followLeaders goroutine calls it after its start-up wait (5 s, 0.5 s with the scaled
// timers) - if NewDB is still busy by then (loaded machine) the node dies with a nil pointer dereference.
// Not one of the listed properties: monitors treat it as "node failed to start" (retry / inconclusive).
func StartupRace(tail string) string {
	if strings.Contains(tail, "nil pointer dereference") && strings.Contains(tail, "server.(*Server).follow") {
		return "start-up race in server.(*Server).follow: s.db still nil when followLeaders called DBOpts.Follow"
	}
	return ""
}

// StopTimeout bounds the wait for a clean stop of an in-process node.
var StopTimeout = 45 * time.Second

func (n *Node) Up() bool {
	n.mx.Lock()
	defer n.mx.Unlock()
	return n.up
}

// StartAll starts leaders then followers.
func (c *Cluster) StartAll() error {
	for _, l := range c.Leaders {
		if err := l.Start(); err != nil {
			return fmt.Errorf("leader %d: %v", l.ID, err)
		}
	}
	for _, reps := range c.Followers {
		for _, f := range reps {
			if err := f.Start(); err != nil {
				return fmt.Errorf("follower %d.%d: %v", f.Partition, f.ID, err)
			}
		}
	}
	return nil
}

// StopAll stops everything and closes the proxies.
func (c *Cluster) StopAll() {
	for _, reps := range c.Followers {
		for _, f := range reps {
			if f.proc {
				// end of the case: nothing is learnt from a clean stop, and a follower with a memory cap
				// cannot be closed at all (flush on close deadlocks on tablesMutex, see DESIGN observations)
				f.Kill()
				continue
			}
			f.Stop()
		}
	}
	for _, l := range c.Leaders {
		l.Stop()
	}
	for _, p := range c.Proxies {
		p.Close()
	}
}

// AllFollowers lists every follower node.
func (c *Cluster) AllFollowers() []*Node {
	var out []*Node
	for _, reps := range c.Followers {
		out = append(out, reps...)
	}
	return out
}

// ProxiesOf returns the proxies between a follower and the leaders.
func (c *Cluster) ProxiesOf(n *Node) []*Proxy { return c.proxyFor[n] }

// PartitionFor mirrors zenodb's partitioning: murmur3 over the bytes of the partition-key values
// (or of the whole dimension map when the table has no partition keys).
func PartitionFor(dims map[string]interface{}, partitionKeys []string, numPartitions int) int {
	bm := bytemap.New(dims)
	h := murmur3.New32()
	if len(partitionKeys) > 0 {
		keys := append([]string(nil), partitionKeys...)
		sort.Strings(keys)
		for _, k := range keys {
			b := bm.GetBytes(k)
			if len(b) > 0 {
				h.Write(b)
			}
		}
	} else {
		h.Write(bm)
	}
	return int(h.Sum32()) % numPartitions
}

// ---------------------------------------------------------------------------------------------

func newProxy(target string) (*Proxy, error) {
	ln, err := net.Listen("tcp", "127.0.0.1:0")
	if err != nil {
		return nil, err
	}
	p := &Proxy{ln: ln, target: target, conns: map[net.Conn]bool{}}
	go p.serve()
	return p, nil
}

func (p *Proxy) Addr() string { return p.ln.Addr().String() }

func (p *Proxy) serve() {
	for {
		conn, err := p.ln.Accept()
		if err != nil {
			return
		}
		p.mx.Lock()
		cut := p.cut
		p.mx.Unlock()
		if cut {
			conn.Close()
			continue
		}
		up, err := net.DialTimeout("tcp", p.target, 2*time.Second)
		if err != nil {
			conn.Close()
			continue
		}
		p.mx.Lock()
		p.conns[conn] = true
		p.conns[up] = true
		p.mx.Unlock()
		pipe := func(dst, src net.Conn) {
			buf := make([]byte, 32*1024)
			for {
				n, err := src.Read(buf)
				if n > 0 {
					p.mx.Lock()
					d := p.delay
					hole := p.hole
					p.mx.Unlock()
					if hole {
						continue
					}
					if d > 0 {
						time.Sleep(d)
					}
					if _, werr := dst.Write(buf[:n]); werr != nil {
						break
					}
				}
				if err != nil {
					break
				}
			}
			dst.Close()
			src.Close()
			p.mx.Lock()
			delete(p.conns, dst)
			delete(p.conns, src)
			p.mx.Unlock()
		}
		go pipe(up, conn)
		go pipe(conn, up)
	}
}

// Cut drops all current connections and refuses new ones.
func (p *Proxy) Cut() {
	p.mx.Lock()
	p.cut = true
	for c := range p.conns {
		c.Close()
	}
	p.conns = map[net.Conn]bool{}
	p.mx.Unlock()
}

// Restore accepts connections again.
func (p *Proxy) Restore() {
	p.mx.Lock()
	p.cut = false
	p.hole = false
	p.mx.Unlock()
}

// Blackhole keeps the connections open but silently swallows everything sent over them.
func (p *Proxy) Blackhole() {
	p.mx.Lock()
	p.hole = true
	p.mx.Unlock()
}

// SetDelay delays every forwarded chunk.
func (p *Proxy) SetDelay(d time.Duration) {
	p.mx.Lock()
	p.delay = d
	p.mx.Unlock()
}

func (p *Proxy) Close() {
	p.Cut()
	p.ln.Close()
}

var _ = io.EOF
