package cluster

// Process mode: a node runs as a child process of the monitor (`vcheck clusternode <spec.json>`), built
// from the same sources and running the same server.Server as in-process nodes. This is what makes
// crash images possible: the child can be killed with SIGKILL at an arbitrary instant, or kills itself
// at the n-th hit of an instrumented point (VERIF_CRASH=<point>:<n>), and the directory it leaves behind
// is by construction a state a crash produces. Queries to such a node go through the real rpc client.

import (
	"bytes"
	"context"
	"crypto/tls"
	"encoding/json"
	"fmt"
	"io/ioutil"
	"net"
	"os"
	"os/exec"
	"os/signal"
	"path/filepath"
	"strings"
	"syscall"
	"time"

	"github.com/getlantern/bytemap"
	"github.com/getlantern/zenodb/core"
	"github.com/getlantern/zenodb/rpc"
	"github.com/getlantern/zenodb/server"

	"verif/internal/dbh"
)

// NodeSpec is what the child needs to build its server.Server.
type NodeSpec struct {
	Role                 string
	Dir                  string
	Schema               string
	Addr                 string
	HTTPSAddr            string
	ID                   int
	NumPartitions        int
	Partition            int
	Capture              string
	CaptureOverride      string
	Feed                 string
	FeedOverride         string
	ClusterQueryTimeout  time.Duration
	MaxMemory            float64
	MaxReconnectWaitTime time.Duration
}

func (n *Node) spec() *NodeSpec {
	c := n.cl
	sp := &NodeSpec{Role: n.Role, Dir: n.Dir, Schema: c.Schema, Addr: n.Addr, HTTPSAddr: n.HTTPSAddr, ID: n.ID, NumPartitions: c.Cfg.NumPartitions,
		ClusterQueryTimeout: c.Cfg.QueryTimeout}
	if n.Role != "leader" {
		var addrs, overrides []string
		for li, l := range c.Leaders {
			addrs = append(addrs, fmt.Sprintf("%s|%d", l.Addr, l.ID))
			if c.Cfg.Proxied {
				overrides = append(overrides, c.proxyFor[n][li].Addr())
			}
		}
		sp.Partition = n.Partition
		sp.Capture = strings.Join(addrs, ",")
		sp.Feed = sp.Capture
		if c.Cfg.Proxied {
			sp.CaptureOverride = strings.Join(overrides, ",")
			sp.FeedOverride = sp.CaptureOverride
		}
		sp.MaxReconnectWaitTime = 250 * time.Millisecond
		sp.MaxMemory = c.Cfg.FollowerMaxMemory
	}
	return sp
}

func (sp *NodeSpec) server() *server.Server {
	s := &server.Server{
		DBDir:                     sp.Dir,
		Schema:                    sp.Schema,
		Addr:                      sp.Addr,
		HTTPSAddr:                 sp.HTTPSAddr,
		Insecure:                  true,
		ID:                        sp.ID,
		NumPartitions:             sp.NumPartitions,
		PKFile:                    filepath.Join(sp.Dir, "pk.pem"),
		CertFile:                  filepath.Join(sp.Dir, "cert.pem"),
		ListenTimeout:             10 * time.Second,
		IterationCoalesceInterval: time.Millisecond,
		Panic:                     dontPanic,
		ClusterQueryTimeout:       sp.ClusterQueryTimeout,
		WALSync:                   0,
	}
	if sp.Role == "leader" {
		s.Passthrough = true
	} else {
		s.Partition = sp.Partition
		s.Capture = sp.Capture
		s.Feed = sp.Feed
		s.CaptureOverride = sp.CaptureOverride
		s.FeedOverride = sp.FeedOverride
		s.MaxReconnectWaitTime = sp.MaxReconnectWaitTime
		s.MaxMemory = sp.MaxMemory
	}
	return s
}

// NodeMain is the body of `vcheck clusternode <spec.json>`.
func NodeMain(args []string) int {
	if len(args) < 1 {
		return 3
	}
	data, err := ioutil.ReadFile(args[0])
	if err != nil {
		fmt.Fprintln(os.Stderr, err)
		return 3
	}
	sp := &NodeSpec{}
	if err := json.Unmarshal(data, sp); err != nil {
		fmt.Fprintln(os.Stderr, err)
		return 3
	}
	os.MkdirAll(sp.Dir, 0755)
	s := sp.server()
	_, run, err := s.Prepare()
	if err != nil {
		fmt.Fprintln(os.Stderr, "PREPARE-ERROR", err)
		return 4
	}
	sig := make(chan os.Signal, 1)
	signal.Notify(sig, syscall.SIGTERM, syscall.SIGINT)
	done := make(chan error, 1)
	go func() { done <- run() }()
	fmt.Fprintln(os.Stderr, "NODE-READY")
	select {
	case <-sig:
		s.Close()
		fmt.Fprintln(os.Stderr, "NODE-CLOSED")
		return 0
	case err := <-done:
		fmt.Fprintln(os.Stderr, "NODE-RUN-ENDED", err)
		return 5
	}
}

// startProc starts the node as a child process. extraEnv is added to the child's environment for
// this start only (e.g. VERIF_CRASH=flush.afterRename:3).
func (n *Node) startProc(extraEnv []string) error {
	var err error
	for attempt := 0; attempt < 4; attempt++ {
		err = n.startProcOnce(extraEnv)
		if err == nil || StartupRace(err.Error()) == "" {
			return err
		}
		// the node died of the server's start-up race (see StartupRace): start it again
		n.StartupRaces++
	}
	return err
}

func (n *Node) startProcOnce(extraEnv []string) error {
	specFile := n.Dir + ".spec.json"
	b, _ := json.Marshal(n.spec())
	if err := ioutil.WriteFile(specFile, b, 0644); err != nil {
		return err
	}
	os.MkdirAll(n.Dir, 0755)
	n.starts++
	logf, err := os.OpenFile(n.Dir+".log", os.O_CREATE|os.O_WRONLY|os.O_APPEND, 0644)
	if err != nil {
		return err
	}
	fmt.Fprintf(logf, "\n==== start %d env %v\n", n.starts, extraEnv)
	cmd := exec.Command(n.cl.Cfg.NodeBin, "clusternode", specFile)
	cmd.Env = append(os.Environ(), extraEnv...)
	cmd.Stdout = logf
	cmd.Stderr = logf
	// no Pdeathsig (it is tied to the forking OS thread, which Go may retire): the scheduler kills the
	// worker's whole process group when the batch ends
	if err := cmd.Start(); err != nil {
		logf.Close()
		return err
	}
	logf.Close()
	n.cmd = cmd
	n.exited = make(chan struct{})
	go func(cmd *exec.Cmd, exited chan struct{}) {
		cmd.Wait()
		close(exited)
	}(cmd, n.exited)
	// wait for the rpc port
	deadline := time.Now().Add(60 * time.Second)
	for {
		select {
		case <-n.exited:
			// died during start-up (possibly at a crash point that is hit while opening)
			n.up = false
			return fmt.Errorf("node process exited during start-up: %s", tailOf(n.Dir+".log", 3000))
		default:
		}
		conn, err := net.DialTimeout("tcp", n.Addr, 200*time.Millisecond)
		if err == nil {
			conn.Close()
			break
		}
		if time.Now().After(deadline) {
			n.killProc()
			return fmt.Errorf("node process did not open %s within 60s: %s", n.Addr, tailOf(n.Dir+".log", 400))
		}
		time.Sleep(20 * time.Millisecond)
	}
	n.up = true
	return nil
}

func tailOf(path string, nBytes int) string {
	data, _ := ioutil.ReadFile(path)
	if len(data) > nBytes {
		data = data[len(data)-nBytes:]
	}
	return string(bytes.ToValidUTF8(data, []byte("?")))
}

func (n *Node) killProc() {
	if n.cmd == nil {
		return
	}
	n.cmd.Process.Signal(syscall.SIGKILL)
	<-n.exited
	if n.client != nil {
		n.client.Close()
		n.client = nil
	}
	n.up = false
}

// stopProc sends SIGTERM and waits; a node that does not exit within 60 s is killed (reported as false).
func (n *Node) stopProc() bool {
	if n.cmd == nil {
		return true
	}
	clean := true
	n.cmd.Process.Signal(syscall.SIGTERM)
	select {
	case <-n.exited:
	case <-time.After(60 * time.Second):
		clean = false
		n.cmd.Process.Signal(syscall.SIGKILL)
		<-n.exited
	}
	if n.client != nil {
		n.client.Close()
		n.client = nil
	}
	n.up = false
	return clean
}

// Kill crashes the node (SIGKILL). Only meaningful in process mode; in-process nodes are stopped cleanly.
func (n *Node) Kill() {
	n.mx.Lock()
	defer n.mx.Unlock()
	if !n.up {
		return
	}
	if n.proc {
		n.killProc()
		return
	}
	n.S.Close()
	n.up = false
}

// StartWithEnv starts a process-mode node with extra environment (crash point).
func (n *Node) StartWithEnv(env []string) error {
	n.mx.Lock()
	defer n.mx.Unlock()
	if n.up {
		return nil
	}
	if !n.proc {
		return fmt.Errorf("StartWithEnv needs process mode")
	}
	return n.startProc(env)
}

// WaitExit waits until the node process has ended by itself (crash point reached). Returns false on timeout.
func (n *Node) WaitExit(timeout time.Duration) bool {
	n.mx.Lock()
	exited := n.exited
	n.mx.Unlock()
	if exited == nil {
		return true
	}
	select {
	case <-exited:
		n.mx.Lock()
		if n.client != nil {
			n.client.Close()
			n.client = nil
		}
		n.up = false
		n.mx.Unlock()
		return true
	case <-time.After(timeout):
		return false
	}
}

// Exited reports whether the node's process has ended (process mode).
func (n *Node) Exited() bool {
	n.mx.Lock()
	exited := n.exited
	n.mx.Unlock()
	if exited == nil {
		return false
	}
	select {
	case <-exited:
		return true
	default:
		return false
	}
}

func (n *Node) rpcClient() (rpc.Client, error) {
	n.mx.Lock()
	defer n.mx.Unlock()
	if n.client != nil {
		return n.client, nil
	}
	addr := n.Addr
	cl, err := rpc.Dial(addr, &rpc.ClientOpts{Dialer: func(_ string, timeout time.Duration) (net.Conn, error) {
		conn, err := net.DialTimeout("tcp", addr, timeout)
		if err != nil {
			return nil, err
		}
		tc := tls.Client(conn, &tls.Config{InsecureSkipVerify: true})
		return tc, tc.Handshake()
	}})
	if err != nil {
		return nil, err
	}
	n.client = cl
	return cl, nil
}

// Query runs a query on the node itself: directly on its DB when the node runs in-process, through the
// real rpc client when it is a child process.
func (n *Node) Query(ctx context.Context, sqlString string, includeMem bool) *dbh.Result {
	if !n.proc {
		return dbh.RunQuery(ctx, n.DB, sqlString, includeMem, nil)
	}
	res := &dbh.Result{SQL: sqlString}
	cl, err := n.rpcClient()
	if err != nil {
		res.PlanErr = err
		return res
	}
	md, iterate, err := cl.Query(ctx, sqlString, includeMem)
	if err != nil {
		res.PlanErr = err
		return res
	}
	res.Fields = md.FieldNames
	res.AsOf, res.Until, res.Res, res.Plan = md.AsOf, md.Until, md.Resolution, md.Plan
	stats, err := iterate(func(fr *core.FlatRow) (bool, error) {
		r := dbh.Row{TS: fr.TS, Vals: append([]float64(nil), fr.Values...)}
		r.Dims = bytemap.ByteMap(append([]byte(nil), fr.Key...)).AsMap()
		r.Key = dbh.CanonKey(r.Dims)
		res.Rows = append(res.Rows, r)
		return true, nil
	})
	res.Stats = stats
	res.Err = err
	return res
}

// Inserter inserts points through a leader: directly in-process, through the rpc client in process mode.
func (n *Node) Insert(stream string, ts time.Time, dims map[string]interface{}, vals map[string]interface{}) error {
	if !n.proc {
		return n.DB.Insert(stream, ts, dims, vals)
	}
	cl, err := n.rpcClient()
	if err != nil {
		return err
	}
	ins, err := cl.NewInserter(context.Background(), stream)
	if err != nil {
		n.dropClient()
		return err
	}
	if err := ins.Insert(ts, dims, func(cb func(string, interface{})) {
		for k, v := range vals {
			cb(k, v)
		}
	}); err != nil {
		n.dropClient()
		return err
	}
	rep, err := ins.Close()
	if err != nil {
		n.dropClient()
		return err
	}
	if rep.Succeeded != 1 {
		return fmt.Errorf("insert not acknowledged: %+v", rep)
	}
	return nil
}

func (n *Node) dropClient() {
	n.mx.Lock()
	if n.client != nil {
		n.client.Close()
		n.client = nil
	}
	n.mx.Unlock()
}
