// Package dbh opens real zenodb databases for the monitors, waits for exact
// quiescence through the verif hooks, and runs queries into canonical rows.
package dbh

import (
	"context"
	"fmt"
	"io/ioutil"
	"math"
	"os"
	"sort"
	"strings"
	"time"

	"github.com/getlantern/bytemap"
	"github.com/getlantern/golog"
	"github.com/getlantern/zenodb"
	"github.com/getlantern/zenodb/common"
	"github.com/getlantern/zenodb/core"
)

func init() {
	if os.Getenv("VERIF_DEBUG") == "" {
		golog.SetOutputs(ioutil.Discard, ioutil.Discard)
	}
}

// TableDef describes one table or view.
type TableDef struct {
	Name        string
	SQL         string
	Retention   time.Duration
	MaxFlush    time.Duration
	MinFlush    time.Duration
	Backfill    time.Duration
	View        bool
	PartitionBy []string
	Stream      string // lower-case stream the table reads from (for quiescence)
}

// Opts are the database options the monitors vary.
type Opts struct {
	VirtualTime    bool
	Coalesce       time.Duration
	MaxMemoryRatio float64
	IterConc       int
	WALSync        time.Duration
	Extra          func(o *zenodb.DBOpts)
}

// DB wraps a zenodb.DB together with what is needed to reopen it.
type DB struct {
	*zenodb.DB
	Dir    string
	Tables []TableDef
	Opts   Opts
}

func (o Opts) dbOpts(dir string) *zenodb.DBOpts {
	co := o.Coalesce
	if co <= 0 {
		co = time.Millisecond
	}
	d := &zenodb.DBOpts{
		Dir:                       dir,
		VirtualTime:               o.VirtualTime,
		IterationCoalesceInterval: co,
		MaxMemoryRatio:            o.MaxMemoryRatio,
		IterationConcurrency:      o.IterConc,
		WALSyncInterval:           o.WALSync,
		ClusterQueryConcurrency:   100,
	}
	if o.Extra != nil {
		o.Extra(d)
	}
	return d
}

// Schema converts table definitions into a zenodb.Schema.
func Schema(tables []TableDef) zenodb.Schema {
	s := zenodb.Schema{}
	for _, t := range tables {
		s[t.Name] = &zenodb.TableOpts{
			Name:            t.Name,
			View:            t.View,
			SQL:             t.SQL,
			RetentionPeriod: t.Retention,
			MaxFlushLatency: t.MaxFlush,
			MinFlushLatency: t.MinFlush,
			Backfill:        t.Backfill,
			PartitionBy:     append([]string(nil), t.PartitionBy...),
		}
	}
	return s
}

// Open opens (or reopens) a database in dir with the given tables.
func Open(dir string, tables []TableDef, o Opts) (*DB, error) {
	if err := os.MkdirAll(dir, 0755); err != nil {
		return nil, err
	}
	zdb, err := zenodb.NewDB(o.dbOpts(dir))
	if err != nil {
		return nil, err
	}
	if err := zdb.ApplySchema(Schema(tables)); err != nil {
		zdb.Close()
		return nil, err
	}
	return &DB{DB: zdb, Dir: dir, Tables: tables, Opts: o}, nil
}

// Reopen closes the database cleanly and opens it again on the same directory.
func (d *DB) Reopen() error {
	d.DB.Close()
	n, err := Open(d.Dir, d.Tables, d.Opts)
	if err != nil {
		return err
	}
	d.DB = n.DB
	return nil
}

// CloseBounded closes the database but gives up after timeout: zenodb's Close never returns when a table's
// ingest goroutine is still handing an insert to a row store that has already stopped (DESIGN observations),
// which happens when a database is closed before its ingestion has caught up. Returns false when it gave up
// (the goroutines are abandoned; worker processes are recycled).
func (d *DB) CloseBounded(timeout time.Duration) bool {
	done := make(chan struct{})
	go func() { d.DB.Close(); close(done) }()
	select {
	case <-done:
		return true
	case <-time.After(timeout):
		return false
	}
}

// Alter applies a changed set of table definitions to the running database.
func (d *DB) Alter(tables []TableDef) error {
	d.Tables = tables
	return d.DB.ApplySchema(Schema(tables))
}

// WaitCaughtUp blocks until every table has applied its stream up to the
// stream's current end (exact, via the verif accessors). Returns false on
// watchdog expiry.
func (d *DB) WaitCaughtUp(timeout time.Duration) bool {
	ends := map[string][]byte{}
	for _, t := range d.Tables {
		stream := t.Stream
		if stream == "" {
			continue
		}
		if _, ok := ends[stream]; !ok {
			end, err := d.DB.VerifStreamEnd(stream)
			if err != nil {
				return false
			}
			ends[stream] = end
		}
	}
	deadline := time.Now().Add(timeout)
	for {
		all := true
		for _, t := range d.Tables {
			if t.Stream == "" {
				continue
			}
			if d.DB.VerifTableOffsets(t.Name) == nil {
				// the row store goroutine has not installed its memstore yet (a query at this point would
				// dereference nil: start-up race in zenodb, see DESIGN.md observations)
				all = false
				break
			}
			end := ends[t.Stream]
			if end == nil {
				continue
			}
			processed, sent, applied := d.DB.VerifTableProgress(t.Name)
			if wOffsetAfter(end, processed[0]) || sent != applied {
				all = false
				break
			}
		}
		if all {
			return true
		}
		if time.Now().After(deadline) {
			if os.Getenv("VERIF_DEBUG") != "" {
				for _, t := range d.Tables {
					processed, sent, applied := d.DB.VerifTableProgress(t.Name)
					fmt.Fprintf(os.Stderr, "WAITDBG table %s processed %v sent %d applied %d stream end %v\n", t.Name, processed, sent, applied, common.OffsetsBySource{0: ends[t.Stream]})
				}
			}
			return false
		}
		time.Sleep(500 * time.Microsecond)
	}
}

func wOffsetAfter(a, b []byte) bool {
	return common.OffsetsBySource{0: a}[0].After(b)
}

// Row is a canonical flat row.
type Row struct {
	TS   int64
	Key  string
	Dims map[string]interface{}
	Vals []float64
}

// Result is the outcome of running one query to completion.
type Result struct {
	SQL     string
	Fields  []string
	Rows    []Row
	Err     error
	PlanErr error
	AsOf    time.Time
	Until   time.Time
	Res     time.Duration
	Stats   interface{}
	Plan    string
}

// Failed reports whether planning or execution returned an error.
func (r *Result) Failed() bool { return r.Err != nil || r.PlanErr != nil }

func (r *Result) ErrString() string {
	if r.PlanErr != nil {
		return "plan: " + r.PlanErr.Error()
	}
	if r.Err != nil {
		return "exec: " + r.Err.Error()
	}
	return ""
}

// Field returns the index of the named field or -1.
func (r *Result) Field(name string) int {
	for i, f := range r.Fields {
		if f == name {
			return i
		}
	}
	return -1
}

// CanonKey renders a dimension map canonically with type tags.
func CanonKey(m map[string]interface{}) string {
	names := make([]string, 0, len(m))
	for k := range m {
		names = append(names, k)
	}
	sort.Strings(names)
	var sb strings.Builder
	for i, k := range names {
		if i > 0 {
			sb.WriteByte(',')
		}
		sb.WriteString(k)
		sb.WriteByte('=')
		sb.WriteString(CanonVal(m[k]))
	}
	return sb.String()
}

// CanonVal renders a typed scalar.
func CanonVal(v interface{}) string {
	switch x := v.(type) {
	case nil:
		return "nil"
	case string:
		return "s:" + x
	case bool:
		return fmt.Sprintf("b:%v", x)
	case int:
		return fmt.Sprintf("i:%d", x)
	case float64:
		if x == 0 {
			x = 0 // -0 and 0 are the same value
		}
		return fmt.Sprintf("f:%v", x)
	case time.Time:
		return fmt.Sprintf("t:%d", x.UnixNano())
	default:
		return fmt.Sprintf("%T:%v", v, v)
	}
}

// Query plans and runs a query with a background context.
func (d *DB) Query(sqlString string, includeMem bool) *Result {
	return RunQuery(context.Background(), d.DB, sqlString, includeMem, nil)
}

// SubQuery plans and runs sqlString the way it runs as an IN-subquery (isSubQuery=true: its select
// list is replaced by _points, the dimension comes from the row key).
func (d *DB) SubQuery(sqlString string, includeMem bool) *Result {
	res := &Result{SQL: sqlString}
	src, err := d.DB.Query(sqlString, true, nil, includeMem)
	if err != nil {
		res.PlanErr = err
		return res
	}
	return Iterate(context.Background(), src, res, nil)
}

// RunQuery plans and runs a query; onRow (optional) is called for every row
// before it is recorded and may stop the iteration or return an error.
func RunQuery(ctx context.Context, zdb *zenodb.DB, sqlString string, includeMem bool, onRow func(i int, r *Row) (bool, error)) *Result {
	res := &Result{SQL: sqlString}
	src, err := zdb.Query(sqlString, false, nil, includeMem)
	if err != nil {
		res.PlanErr = err
		return res
	}
	return Iterate(ctx, src, res, onRow)
}

// Iterate runs a planned source into res.
func Iterate(ctx context.Context, src core.FlatRowSource, res *Result, onRow func(i int, r *Row) (bool, error)) *Result {
	res.AsOf = src.GetAsOf()
	res.Until = src.GetUntil()
	res.Res = src.GetResolution()
	res.Plan = core.FormatSource(src)
	i := 0
	stats, err := src.Iterate(ctx, func(fields core.Fields) error {
		res.Fields = fields.Names()
		return nil
	}, func(fr *core.FlatRow) (bool, error) {
		r := Row{TS: fr.TS, Vals: append([]float64(nil), fr.Values...)}
		r.Dims = bytemap.ByteMap(append([]byte(nil), fr.Key...)).AsMap()
		r.Key = CanonKey(r.Dims)
		if onRow != nil {
			more, err := onRow(i, &r)
			if err != nil {
				return false, err
			}
			res.Rows = append(res.Rows, r)
			i++
			return more, nil
		}
		res.Rows = append(res.Rows, r)
		i++
		return true, nil
	})
	res.Stats = stats
	res.Err = err
	return res
}

// RowID identifies a row by timestamp and key.
func (r *Row) ID() string { return fmt.Sprintf("%d|%s", r.TS, r.Key) }

// FloatEq compares with relative tolerance tol (and treats -0 == 0).
func FloatEq(a, b, tol float64) bool {
	if a == b {
		return true
	}
	if math.IsNaN(a) || math.IsNaN(b) {
		return math.IsNaN(a) && math.IsNaN(b)
	}
	diff := math.Abs(a - b)
	scale := math.Max(math.Abs(a), math.Abs(b))
	return diff <= tol*scale || diff <= 1e-300
}

// Index maps row id -> row (fails on duplicates by returning the duplicate id).
func (r *Result) Index() (map[string]*Row, string) {
	m := make(map[string]*Row, len(r.Rows))
	for i := range r.Rows {
		id := r.Rows[i].ID()
		if _, dup := m[id]; dup {
			return m, id
		}
		m[id] = &r.Rows[i]
	}
	return m, ""
}

// Diff compares two results as multisets keyed by (TS,key) over the fields of a
// (matched by name in b). tol is the relative tolerance (0 = exact).
// Returns "" when equal.
func Diff(a, b *Result, tol float64) string {
	if a.Failed() || b.Failed() {
		if a.ErrString() != b.ErrString() {
			return fmt.Sprintf("errors differ: %q vs %q", a.ErrString(), b.ErrString())
		}
		return ""
	}
	if len(a.Fields) != len(b.Fields) {
		return fmt.Sprintf("field lists differ: %v vs %v", a.Fields, b.Fields)
	}
	idx := make([]int, len(a.Fields))
	for i, f := range a.Fields {
		idx[i] = b.Field(f)
		if idx[i] < 0 {
			return fmt.Sprintf("field lists differ: %v vs %v", a.Fields, b.Fields)
		}
	}
	ma, dup := a.Index()
	if dup != "" {
		return "duplicate row in first result: " + dup
	}
	mb, dup := b.Index()
	if dup != "" {
		return "duplicate row in second result: " + dup
	}
	var ids []string
	for id := range ma {
		ids = append(ids, id)
	}
	sort.Strings(ids)
	for _, id := range ids {
		rb, ok := mb[id]
		if !ok {
			return fmt.Sprintf("row %s (%v) only in first result (%d vs %d rows)", id, ma[id].Vals, len(a.Rows), len(b.Rows))
		}
		ra := ma[id]
		for i := range a.Fields {
			va, vb := ra.Vals[i], rb.Vals[idx[i]]
			if (tol == 0 && va != vb && !(va == 0 && vb == 0)) || (tol > 0 && !FloatEq(va, vb, tol)) {
				return fmt.Sprintf("row %s field %s: %v vs %v", id, a.Fields[i], va, vb)
			}
		}
	}
	for id := range mb {
		if _, ok := ma[id]; !ok {
			return fmt.Sprintf("row %s (%v) only in second result (%d vs %d rows)", id, mb[id].Vals, len(a.Rows), len(b.Rows))
		}
	}
	return ""
}

// FmtTime renders a time for SQL ASOF/UNTIL literals.
func FmtTime(t time.Time) string {
	return t.UTC().Format(time.RFC3339Nano)
}
