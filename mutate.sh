#!/bin/bash
# mutate.sh <patch.diff> <ID> [tier]: apply a patch to a scratch worktree of /repo, run one check against it,
# remove the worktree. Exit status is the check's. (Development aid; not registered in MANIFEST.)
set -u
PATCH=$(readlink -f "$1"); ID=$2; TIER=${3:-quick}
WT=$(mktemp -d /tmp/zmut-XXXXXX)/zenodb
git -C /repo worktree add --detach -q "$WT" HEAD || exit 3
trap 'git -C /repo worktree remove --force "$WT" 2>/dev/null; rm -rf "$(dirname "$WT")"; rm -rf /verif/bin/alt-$(echo "$WT" | md5sum | cut -c1-8)' EXIT
git -C "$WT" apply "$PATCH" || { echo "patch does not apply"; exit 3; }
cd /verif
VERIF_REPO="$WT" VERIF_OUT="$(dirname "$WT")/out" ./run.sh "$ID" "$TIER"
