#!/usr/bin/env python3
# import_seed.py <ID> <m> "<summary>" "<needs>" : copies a sub-agent's mutant from /tmp/mut/<ID>/out into /verif/seeded/<ID>-m<m>
import json, sys, os, shutil
id, m, summary, needs = sys.argv[1:5]
src = "/tmp/mut/%s/out" % id
dst = "/verif/seeded/%s-m%s" % (id, m)
os.makedirs(dst, exist_ok=True)
shutil.copy(src + "/m%s.diff" % m, dst + "/patch.diff")
dj = json.load(open(src + "/demo.json"))["m" + m]
ext = ".go"
shutil.copy(src + "/" + dj["demo_file"], dst + "/demo_src" + ext)
shutil.copy(src + "/notes.md", dst + "/agent_notes.md")
meta = {"property": id, "origin": "sub-agent mut-%s (given only the property text and a scratch worktree)" % id, "summary": summary, "needs": needs,
        "demo_file": "demo_src" + ext, "demo_path": dj["place_at"], "demo_cmd": dj["run"]}
if "server" in dj["run"] or "./server" in dj.get("run", ""):
    meta["run_server"] = False
json.dump(meta, open(dst + "/meta.json", "w"), indent=1)
print(dst, dj["place_at"], dj["run"])
